"""Discharging the obligations of an engine-S harness: solve, integer model, replay, records."""
from __future__ import annotations

import time
import traceback
from typing import Any, Callable, Dict, List, Optional, Tuple

import z3

from ..report import CONTROL, INCONCLUSIVE, PROVED
import os
import zlib

from ..smt import cvc5_check
from .scalar import Ctx, PathLimit, explore, integer_model, portfolio, _model_dict


def _diff_sample(name: str) -> bool:
    """deterministic sample of proved obligations that are re-decided by cvc5 (every 16th in quick, every 3rd in thorough)"""
    k = 3 if os.environ.get("VERIF_TIER_EFFECTIVE", "quick") == "thorough" else 16
    return zlib.crc32(name.encode()) % k == 0

Replay = Callable[[str, Dict[str, Any], Any], Tuple[bool, str]]


def discharge(pid: str, hname: str, harness: Callable[[Ctx], Any], replay: Optional[Replay] = None,
              timeout_s: float = 30.0, max_paths: int = 256,
              allowed_exceptions: Tuple[type, ...] = (), base_info: Optional[Dict[str, Any]] = None,
              skip_definedness: bool = False) -> List[Dict[str, Any]]:
    recs: List[Dict[str, Any]] = []
    t0 = time.time()
    try:
        paths = explore(harness, max_paths)
    except PathLimit as e:
        return [{"type": "obligation", "name": f"{hname}/paths", "status": INCONCLUSIVE, "detail": str(e), "queries": 0}]
    recs.append({"type": "paths", "n": len(paths)})
    for pi, (c, res, exc) in enumerate(paths):
        with c:
            pname = f"{hname}/p{pi}" if len(paths) > 1 else hname
            if exc is not None and not isinstance(exc, allowed_exceptions):
                tb = "".join(traceback.format_exception(type(exc), exc, exc.__traceback__))[-1200:]
                _unexpected(pid, pname, c, exc, tb, replay, recs, timeout_s, base_info or {})
                # obligations recorded before the exception are still discharged below
            seen = set()
            for ob in c.obligations:
                sig = (ob["claim"].get_id(), tuple(p.get_id() for p in ob["path"]), ob["kind"])
                if sig in seen:
                    continue
                seen.add(sig)
                if skip_definedness and ob["kind"] == "definedness":
                    continue  # discharged under another property's check; still assumed by later claims
                _one(pid, pname, c, ob, replay, recs, timeout_s, base_info or {})
            recs.append({"type": "obligation", "name": f"{pname}/feasibility", "status": PROVED,
                         "secs": c.feas_s, "queries": c.feas_queries, "detail": {"decisions": c.trace},
                         "kind": "solver"} if c.feas_queries else {"type": "paths", "n": 0})
    return recs


def _unexpected(pid: str, pname: str, c: Ctx, exc: BaseException, tb: str, replay: Optional[Replay],
                recs: List[Dict[str, Any]], timeout_s: float, base_info: Dict[str, Any]) -> None:
    name = f"{pname}/no-exception"
    cs = c.background() + c.path
    st, model, secs = portfolio(cs, timeout_s)
    if st != "sat":
        recs.append({"type": "obligation", "name": name, "status": INCONCLUSIVE, "secs": secs,
                     "detail": f"path raised {type(exc).__name__}: {exc} but its path condition is {st}\n{tb}"})
        return
    md = integer_model(c, cs, model)
    if md is None or replay is None:
        recs.append({"type": "obligation", "name": name, "status": INCONCLUSIVE, "secs": secs,
                     "detail": f"symbolic run raised {type(exc).__name__}: {exc}\n{tb}"})
        return
    try:
        ok, desc = replay("no-exception", md, {**base_info, "exception": f"{type(exc).__name__}: {exc}"})
    except Exception:
        ok, desc = False, "replayer crashed: " + traceback.format_exc()[-800:]
    if ok:
        recs.append({"type": "violation", "key": f"{pid}/{name}", "what": desc,
                     "replay": {"harness": pname, "obligation": "no-exception", "model": md, "info": _plain(base_info)}})
    else:
        recs.append({"type": "obligation", "name": name, "status": INCONCLUSIVE, "secs": secs,
                     "detail": f"symbolic run raised {type(exc).__name__}: {exc} but the real code does not ({desc})\n{tb}"})


def _one(pid: str, pname: str, c: Ctx, ob: Dict[str, Any], replay: Optional[Replay],
         recs: List[Dict[str, Any]], timeout_s: float, base_info: Dict[str, Any]) -> None:
    name = f"{pname}/{ob['name']}"
    base = c.background(ob["ndefs"] if ob["kind"] == "definedness" else None) + ob["path"]
    if ob["kind"] != "definedness":
        # definedness of everything evaluated before this claim is an obligation of its own: assume it here
        idx = c.obligations.index(ob)
        base += [o["claim"] for o in c.obligations[:idx] if o["kind"] == "definedness"
                 and all(any(p.eq(q) for q in ob["path"]) for p in o["path"])]
    info = ob.get("info") or {}
    if isinstance(info, dict):
        info = {**base_info, **info}
    if ob["kind"] != "control" and z3.is_true(z3.simplify(ob["claim"])):
        # decided syntactically (e.g. unification produced only identical coefficient pairs): recorded, not counted as solver work
        recs.append({"type": "obligation", "name": name, "status": PROVED, "secs": 0.0, "queries": 0, "kind": "syntactic",
                     "detail": {"kind": ob["kind"], "note": "claim simplifies to true (structurally identical terms)"}})
        return
    known = list(info.get("known", [])) if isinstance(info, dict) else []  # [(suffix, z3 predicate)]
    excluded: List[Any] = []
    total = 0.0
    queries = 0
    while True:
        cs = base + excluded + [z3.Not(ob["claim"])]
        st, model, secs = portfolio(cs, timeout_s)
        total += secs
        queries += 1
        if ob["kind"] == "control":
            ok = st == "sat"
            recs.append({"type": "obligation", "name": name, "status": CONTROL if ok else INCONCLUSIVE, "secs": total,
                         "detail": {"control": "must be sat", "result": st,
                                    "witness": _model_dict(c, model) if ok else None}, "queries": queries})
            return
        if st == "unsat":
            detail = {"kind": ob["kind"], "excluded_known": [str(e) for e in excluded] or None, "smt": _short(ob["claim"])}
            if _diff_sample(name) and not z3.is_false(z3.simplify(z3.Not(ob["claim"]))):
                r2, s2 = cvc5_check(cs, 5.0)
                recs.append({"type": "diff", "result": r2, "secs": s2})
                detail["cvc5"] = r2
                if r2 == "sat":
                    recs.append({"type": "obligation", "name": name, "status": INCONCLUSIVE, "secs": total, "queries": queries,
                                 "detail": f"solvers disagree: z3 unsat, cvc5 sat on {_short(ob['claim'])}"})
                    return
            recs.append({"type": "obligation", "name": name, "status": PROVED, "secs": total, "queries": queries, "detail": detail})
            return
        if st == "sat" and ob.get("tol") is not None:
            st2, _, secs2 = portfolio(base + excluded + [z3.Not(ob["tol"])], timeout_s)
            total += secs2
            queries += 1
            if st2 == "unsat":
                recs.append({"type": "obligation", "name": name, "status": PROVED, "secs": total, "queries": queries,
                             "detail": {"kind": ob["kind"], "note": "holds to 1e-9 relative (exact form refuted only through "
                                        "float constants taken as exact rationals)", "smt": _short(ob["tol"])}})
                return
        if st != "sat":
            recs.append({"type": "obligation", "name": name, "status": INCONCLUSIVE, "secs": total, "queries": queries,
                         "detail": f"solver {st} within {timeout_s}s: {_short(ob['claim'])}"})
            return
        # which known predicate (if any) does the model fall under?
        hit = None
        for suffix, pred in known:
            if z3.is_true(model.eval(pred, model_completion=True)):
                hit = (suffix, pred)
                break
        md = integer_model(c, cs + ([hit[1]] if hit else []), model)
        if md is None:
            recs.append({"type": "obligation", "name": name, "status": INCONCLUSIVE, "secs": total, "queries": queries,
                         "detail": f"relaxed query sat but no integer model found: {_short(ob['claim'])}"})
            return
        if replay is None:
            recs.append({"type": "obligation", "name": name, "status": INCONCLUSIVE, "secs": total, "queries": queries,
                         "detail": f"sat with model {md} and no replayer"})
            return
        try:
            ok, desc = replay(ob["name"], md, info)
        except Exception:
            ok, desc = False, "replayer crashed: " + traceback.format_exc()[-800:]
            # the symbolic run may have left symbolic objects in library-global state (caches): decide in a clean process
            sub = _replay_in_subprocess(pid, {"harness": pname, "obligation": ob["name"], "model": md, "info": _plain(info)})
            if sub is not None:
                ok, desc = sub
        if not ok:
            recs.append({"type": "obligation", "name": name, "status": INCONCLUSIVE, "secs": total, "queries": queries,
                         "detail": f"counterexample {md} does not reproduce on the real code ({desc}); encoding suspect: {_short(ob['claim'])}"})
            return
        key = f"{pid}/{name}" + (f"/{hit[0]}" if hit else "")
        recs.append({"type": "violation", "key": key, "what": desc,
                     "replay": {"harness": pname, "obligation": ob["name"], "model": md, "info": _plain(info)}})
        recs.append({"type": "obligation", "name": name + "/solver-time", "status": "concrete-ok", "secs": total,
                     "queries": queries, "detail": "sat; verdict in the violation record", "kind": "solver"})
        if hit is None:
            return
        excluded.append(z3.Not(hit[1]))
        known = [k for k in known if k[0] != hit[0]]
        total, queries = 0.0, 0


_SUB_N = [0]


def _replay_in_subprocess(pid: str, payload: Dict[str, Any]) -> Optional[Tuple[bool, str]]:
    """bin/vcheck <pid> --replay <file> in a fresh interpreter; None when that run is itself unusable"""
    import json
    import os
    import subprocess
    import sys
    from ..report import REPLAY_DIR
    _SUB_N[0] += 1
    if _SUB_N[0] > 8:  # a handful per task is enough to turn a crash into a verdict
        return None
    os.makedirs(REPLAY_DIR, exist_ok=True)
    path = os.path.join(REPLAY_DIR, f".sub_{pid}_{os.getpid()}_{_SUB_N[0]}.json")
    try:
        with open(path, "w") as f:
            json.dump({"replay": payload}, f)
        p = subprocess.run([sys.executable, "-m", "vf.cli", pid, "--replay", path], capture_output=True, text=True, timeout=900,
                           cwd=os.path.dirname(os.path.dirname(os.path.dirname(os.path.abspath(__file__)))))
        for line in p.stdout.splitlines():
            if line.startswith("REPRODUCED "):
                return True, line[len("REPRODUCED "):] + " (replayed in a clean process)"
            if line.startswith("NOT-REPRODUCED "):
                return False, line[len("NOT-REPRODUCED "):] + " (replayed in a clean process)"
        return None
    except Exception:
        return None
    finally:
        try:
            os.remove(path)
        except OSError:
            pass


def _short(e: Any, n: int = 400) -> str:
    try:
        s = str(z3.simplify(e))
    except Exception:
        s = str(e)
    return s if len(s) <= n else s[:n] + "..."


def _plain(info: Any) -> Any:
    if isinstance(info, dict):
        return {k: _plain(v) for k, v in info.items() if k != "known"}
    if isinstance(info, (list, tuple)):
        return [_plain(v) for v in info]
    if isinstance(info, (str, int, float, bool)) or info is None:
        return info
    return str(info)
