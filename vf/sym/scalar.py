"""Engine S, part 1: symbolic Python scalars (SInt / SReal / SBool), path forking, obligations.

* SInt   : exact integer polynomial (sympy) over dimension symbols; // and % by exact divisors are done
           in the polynomial normal form, inexact floor division introduces quotient/remainder symbols.
* SReal  : z3 Real term.  x ** (p/q) with a concrete rational exponent introduces a root symbol r with
           r >= 0, r^q = x (hash-consed per base term) and a definedness obligation.
* SBool  : z3 Bool term; bool() forks the path (re-execution with a decision prefix).
Dimension symbols are *relaxed to reals* in solver queries (sound for unsat); a sat model is re-solved
with integrality before it is replayed.
"""
from __future__ import annotations

import functools
import itertools
import math
import time
from fractions import Fraction
from typing import Any, Callable, Dict, List, Optional, Sequence, Tuple, Union

import sympy as sp
import z3

Number = Union[int, float, Fraction]


class PathLimit(Exception):
    pass


class Infeasible(Exception):
    """Raised inside a harness when the current path condition is unsatisfiable."""


class Ctx:
    """State of one symbolic run along one path."""

    cur: Optional["Ctx"] = None

    def __init__(self, prefix: Sequence[bool] = ()):
        self.prefix = list(prefix)
        self.trace: List[bool] = []
        self.alternatives: List[List[bool]] = []
        self.assumes: List[Any] = []  # domain constraints (z3)
        self.defs: List[Any] = []  # definitional constraints (roots, quotients, exp/log axioms)
        self.path: List[Any] = []  # path condition
        self.obligations: List[Dict[str, Any]] = []
        self.dims: Dict[str, Any] = {}  # name -> z3 Real var of an integer-valued symbol
        self.samples: Dict[str, int] = {}  # sample value per integer symbol (for meta-tensor shadowing)
        self.reals: Dict[str, Any] = {}
        self.roots: Dict[Tuple[int, int], Any] = {}
        self._keep: List[Any] = []
        self.n = 0
        self.log_args: List[Any] = []
        self.exp_args: List[Any] = []
        self.data_vars: List[Any] = []
        self.extra_vars: Dict[str, Any] = {}  # further solver variables to report in counterexample models (Int selectors)
        self.events: List[str] = []
        self.feas_s = 0.0
        self.feas_queries = 0

    # ---- context manager
    def __enter__(self) -> "Ctx":
        self._prev = Ctx.cur
        Ctx.cur = self
        return self

    def __exit__(self, *exc: Any) -> None:
        Ctx.cur = self._prev

    # ---- symbols
    def dim(self, name: str, lo: int = 1, hi: Optional[int] = 2 ** 20, sample: int = 3) -> "SInt":
        v = z3.Real(name)
        self.dims[name] = v
        self.samples[name] = sample
        self.assumes.append(v >= lo)
        if hi is not None:
            self.assumes.append(v <= hi)
        return SInt(sp.Symbol(name, integer=True, positive=(lo >= 1)))

    def real(self, name: str, lo: Optional[Number] = None, hi: Optional[Number] = None,
             lo_strict: bool = False, hi_strict: bool = False) -> "SReal":
        v = z3.Real(name)
        self.reals[name] = v
        if lo is not None:
            l = _q(lo)
            self.assumes.append(v > l if lo_strict else v >= l)
        if hi is not None:
            h = _q(hi)
            self.assumes.append(v < h if hi_strict else v <= h)
        return SReal(v)

    def fresh(self, stem: str) -> Any:
        self.n += 1
        return z3.Real(f"{stem}!{self.n}")

    def assume(self, c: Any) -> None:
        self.assumes.append(_b(c))

    # ---- obligations
    def oblige(self, name: str, claim: Any, kind: str = "claim", info: Any = None, tol: Any = None) -> None:
        """tol: a weaker claim (equalities to 1e-9 relative) tried when the exact claim is refuted - float
        constants that come out of the source already rounded (8**-0.5) are exact rationals here."""
        self.obligations.append({"name": name, "claim": _b(claim), "path": list(self.path),
                                 "ndefs": len(self.defs), "kind": kind, "info": info,
                                 "tol": _b(tol) if tol is not None else None})

    def background(self, ndefs: Optional[int] = None) -> List[Any]:
        d = self.defs if ndefs is None else self.defs[:ndefs]
        return list(self.assumes) + list(d) + self._mono_axioms()

    def _mono_axioms(self) -> List[Any]:
        ax = []
        for a, b in itertools.combinations(self.log_args, 2):
            ax.append(z3.Implies(a < b, LOG(a) < LOG(b)))
            ax.append(z3.Implies(b < a, LOG(b) < LOG(a)))
            ax.append(z3.Implies(a == b, LOG(a) == LOG(b)))
        for a, b in itertools.combinations(self.exp_args, 2):
            ax.append(z3.Implies(a < b, EXP(a) < EXP(b)))
            ax.append(z3.Implies(b < a, EXP(b) < EXP(a)))
        return ax

    # ---- forking
    def decide(self, cond: Any) -> bool:
        i = len(self.trace)
        if i < len(self.prefix):
            choice = self.prefix[i]
        else:
            t0 = time.time()
            bg = self.background() + self.path
            can_t = _feasible(bg + [cond])
            can_f = _feasible(bg + [z3.Not(cond)])
            self.feas_s += time.time() - t0
            self.feas_queries += 2
            if can_t and can_f:
                choice = True
                self.alternatives.append(self.trace + [False])
            elif can_t:
                choice = True
            elif can_f:
                choice = False
            else:
                raise Infeasible()
        self.trace.append(choice)
        self.path.append(cond if choice else z3.Not(cond))
        return choice


def _feasible(cs: List[Any]) -> bool:
    s = z3.Solver()
    s.set("timeout", 3000)
    s.add(*cs)
    return str(s.check()) != "unsat"  # unknown => explore (obligations carry the path condition)


R = z3.RealSort()
LOG = z3.Function("Log", R, R)
EXP = z3.Function("Exp", R, R)


def _q(x: Number) -> Any:
    if isinstance(x, bool):
        return z3.RealVal(int(x))
    if isinstance(x, int):
        return z3.RealVal(x)
    if isinstance(x, Fraction):
        return z3.RealVal(x.numerator) / z3.RealVal(x.denominator)
    f = Fraction(x)  # exact value of the double
    return z3.Q(f.numerator, f.denominator)


def _b(c: Any) -> Any:
    if isinstance(c, SBool):
        return c.z
    if isinstance(c, bool):
        return z3.BoolVal(c)
    return c


def ctx() -> Ctx:
    assert Ctx.cur is not None, "no symbolic context"
    return Ctx.cur


# =============================================================================== SBool
class SBool:
    def __init__(self, z: Any):
        self.z = z

    def __bool__(self) -> bool:
        zs = z3.simplify(self.z)
        if z3.is_true(zs):
            return True
        if z3.is_false(zs):
            return False
        return ctx().decide(self.z)

    def __and__(self, o: Any) -> "SBool":
        return SBool(z3.And(self.z, _b(o)))

    __rand__ = __and__

    def __or__(self, o: Any) -> "SBool":
        return SBool(z3.Or(self.z, _b(o)))

    __ror__ = __or__

    def __invert__(self) -> "SBool":
        return SBool(z3.Not(self.z))

    def __repr__(self) -> str:
        return f"SBool({self.z})"


# =============================================================================== SInt
def _sint_to_z3(e: sp.Expr) -> Any:
    c = ctx()
    e = sp.expand(e)
    if e.is_Integer:
        return z3.RealVal(int(e))
    if e.is_Rational:
        return z3.Q(int(e.p), int(e.q))
    if e.is_Symbol:
        return c.dims[e.name]
    if e.is_Add:
        return z3.Sum([_sint_to_z3(a) for a in e.args])
    if e.is_Mul:
        return z3.Product([_sint_to_z3(a) for a in e.args])
    if e.is_Pow and e.exp.is_Integer and int(e.exp) >= 0:
        b = _sint_to_z3(e.base)
        return z3.Product([b] * int(e.exp)) if int(e.exp) > 0 else z3.RealVal(1)
    raise NotImplementedError(f"SInt->z3: {e!r}")


class SInt:
    """Symbolic Python int: an exact integer polynomial in the dimension symbols."""

    # torch's C argument parser accepts any object that carries __torch_function__ where it expects a Tensor, and then hands the
    # call to the override: torch.mul(x, mult), torch.eq(idx, padding_idx), torch.div(y, mult) with a symbolic scalar reach engine S
    @classmethod
    def __torch_function__(cls, func: Any, types: Any, args: Any = (), kwargs: Any = None) -> Any:
        from .tensor import dispatch
        return dispatch(getattr(func, "__name__", str(func)), func, tuple(args), dict(kwargs or {}))

    __slots__ = ("e",)

    def __init__(self, e: Any):
        self.e = sp.expand(sp.sympify(e))

    # conversions
    @property
    def z(self) -> Any:
        return _sint_to_z3(self.e)

    def real(self) -> "SReal":
        return SReal(self.z, is_int=True)

    @property
    def sample(self) -> int:
        v = self.e.subs({sp.Symbol(k, integer=True, positive=True): s for k, s in ctx().samples.items()})
        v = v.subs({s: ctx().samples[s.name] for s in v.free_symbols})
        return int(v)

    def concrete(self) -> Optional[int]:
        return int(self.e) if self.e.is_Integer else None

    def __index__(self) -> int:
        c = self.concrete()
        if c is None:
            raise TypeError("symbolic int used as index")
        return c

    __int__ = __index__

    def __float__(self) -> float:
        c = self.concrete()
        if c is None:
            raise TypeError("symbolic int -> float")
        return float(c)

    def __hash__(self) -> int:
        # symbolic ints must COLLIDE in hash containers: set() / dict / `in` then fall back to ==, which forks on the path
        # condition (len(set(numels)) == 1 is a comparison of symbolic sizes, not of their spellings)
        c = self.concrete()
        return hash(c) if c is not None else 0x51A7

    def __bool__(self) -> bool:
        r = self != 0
        return bool(r)

    def __repr__(self) -> str:
        return f"SInt({self.e})"

    # arithmetic
    @staticmethod
    def _lift(o: Any) -> Optional["SInt"]:
        if isinstance(o, SInt):
            return o
        if isinstance(o, bool):
            return SInt(int(o))
        if isinstance(o, int):
            return SInt(o)
        return None

    def __add__(self, o: Any) -> Any:
        b = SInt._lift(o)
        return SInt(self.e + b.e) if b is not None else self.real() + o

    __radd__ = __add__

    def __sub__(self, o: Any) -> Any:
        b = SInt._lift(o)
        return SInt(self.e - b.e) if b is not None else self.real() - o

    def __rsub__(self, o: Any) -> Any:
        b = SInt._lift(o)
        return SInt(b.e - self.e) if b is not None else o - self.real()

    def __mul__(self, o: Any) -> Any:
        b = SInt._lift(o)
        if b is not None:
            return SInt(self.e * b.e)
        if isinstance(o, (float, Fraction, SReal)):
            return self.real() * o
        return NotImplemented

    __rmul__ = __mul__

    def __neg__(self) -> "SInt":
        return SInt(-self.e)

    def __pos__(self) -> "SInt":
        return self

    def __truediv__(self, o: Any) -> Any:
        return self.real() / o

    def __rtruediv__(self, o: Any) -> Any:
        return _sreal(o) / self.real()

    def __pow__(self, p: Any) -> Any:
        if isinstance(p, int) and not isinstance(p, bool) and p >= 0:
            return SInt(self.e ** p)
        return self.real() ** p

    def __rpow__(self, b: Any) -> Any:
        raise NotImplementedError("symbolic exponent")

    def __floordiv__(self, o: Any) -> "SInt":
        b = SInt._lift(o)
        if b is None:
            raise NotImplementedError("SInt // non-int")
        return _floordiv(self, b)[0]

    def __rfloordiv__(self, o: Any) -> "SInt":
        return _floordiv(SInt._lift(o), self)[0]

    def __mod__(self, o: Any) -> "SInt":
        b = SInt._lift(o)
        return _floordiv(self, b)[1]

    def __divmod__(self, o: Any) -> Tuple["SInt", "SInt"]:
        return _floordiv(self, SInt._lift(o))

    # comparisons
    def _cmp(self, o: Any, op: str) -> Any:
        if _is_tensor(o):
            return NotImplemented
        b = SInt._lift(o)
        if b is None:
            return getattr(self.real(), op)(o)
        d = sp.expand(self.e - b.e)
        if d.is_Integer:
            return {"__eq__": d == 0, "__ne__": d != 0, "__lt__": d < 0, "__le__": d <= 0,
                    "__gt__": d > 0, "__ge__": d >= 0}[op]
        dz = _sint_to_z3(d)
        zero = z3.RealVal(0)
        return SBool({"__eq__": dz == zero, "__ne__": dz != zero, "__lt__": dz < zero, "__le__": dz <= zero,
                      "__gt__": dz > zero, "__ge__": dz >= zero}[op])

    def __eq__(self, o: Any) -> Any:  # type: ignore[override]
        if o is None or isinstance(o, str):
            return False
        return self._cmp(o, "__eq__")

    def __ne__(self, o: Any) -> Any:  # type: ignore[override]
        if o is None or isinstance(o, str):
            return True
        return self._cmp(o, "__ne__")

    def __lt__(self, o: Any) -> Any:
        return self._cmp(o, "__lt__")

    def __le__(self, o: Any) -> Any:
        return self._cmp(o, "__le__")

    def __gt__(self, o: Any) -> Any:
        return self._cmp(o, "__gt__")

    def __ge__(self, o: Any) -> Any:
        return self._cmp(o, "__ge__")


def _floordiv(a: SInt, b: SInt) -> Tuple[SInt, SInt]:
    c = ctx()
    if a.e.is_Integer and b.e.is_Integer:
        return SInt(int(a.e) // int(b.e)), SInt(int(a.e) % int(b.e))
    # exact division in the polynomial normal form
    syms = sorted(a.e.free_symbols | b.e.free_symbols, key=str)
    try:
        pq, pr = sp.div(sp.Poly(a.e, *syms), sp.Poly(b.e, *syms))
        if pr.is_zero and all(co.is_Integer for co in pq.coeffs()):
            return SInt(pq.as_expr()), SInt(0)
    except Exception:
        pass
    # concrete positive divisor: split every coefficient, (d*a1 + a0)//d = a1 + a0//d; exact when a0 is a constant
    if b.e.is_Integer and int(b.e) > 0 and syms:
        d = int(b.e)
        pa = sp.Poly(a.e, *syms)
        a1 = sum((int(co) // d) * sp.prod([x ** k for x, k in zip(syms, mon)]) for mon, co in pa.terms())
        a0 = sum((int(co) % d) * sp.prod([x ** k for x, k in zip(syms, mon)]) for mon, co in pa.terms())
        a0 = sp.expand(a0)
        if a0.is_Integer:
            return SInt(a1 + int(a0) // d), SInt(int(a0) % d)
    # inexact: a = b*q + r, 0 <= r < b   (b > 0 is a definedness obligation)
    key = ("fdiv", str(a.e), str(b.e))
    if key in c.roots:
        return c.roots[key]
    c.oblige(f"definedness: divisor {b.e} > 0", b > 0, kind="definedness")
    c.n += 1
    qn, rn = f"quo!{c.n}", f"rem!{c.n}"
    qv, rv = z3.Real(qn), z3.Real(rn)
    c.dims[qn], c.dims[rn] = qv, rv
    sa, sb = a.sample, b.sample
    c.samples[qn], c.samples[rn] = sa // sb, sa % sb
    qs, rs = sp.Symbol(qn, integer=True), sp.Symbol(rn, integer=True)
    c.defs += [a.z == b.z * qv + rv, rv >= 0, rv <= b.z - 1]
    res = (SInt(qs), SInt(rs))
    c.roots[key] = res
    return res


# =============================================================================== SReal
def _sreal(o: Any) -> "SReal":
    if isinstance(o, SReal):
        return o
    if isinstance(o, SInt):
        return o.real()
    if isinstance(o, float) and Ctx.cur is not None:
        r = _as_sqrt(o)
        if r is not None:
            # a source constant such as 2**0.5, 8**-0.5, 0.5**0.5: in the real-number model it *is* the square root (the
            # double differs from it by <= 2 ulp); read as the exact rational, identities like c*c == 2 would be refuted by 1e-16
            sign, rad = r
            root = sym_pow(SReal(_q(rad), const=rad), Fraction(1, 2))
            return root if sign > 0 else -root
    if isinstance(o, (int, float, Fraction)):
        return SReal(_q(o), const=Fraction(o))
    raise TypeError(f"cannot lift {type(o)} to SReal")


@functools.lru_cache(maxsize=4096)
def _as_sqrt(x: float) -> Optional[Tuple[int, Fraction]]:
    """(sign, r) when the double x is within 2 ulp of sqrt(r) for a rational r with denominator <= 4096 that is not itself a
    perfect square of a small rational; None otherwise."""
    if x != x or x in (float("inf"), float("-inf")) or x == 0:
        return None
    ax = abs(x)
    if float(Fraction(ax).limit_denominator(1 << 20)) == ax:
        return None  # (the double nearest to) an ordinary short rational: 0.5, 3.0, 0.3, 1/3, ...
    r = (Fraction(ax) ** 2).limit_denominator(4096)
    if r <= 0:
        return None
    s = math.sqrt(float(r))
    if abs(s - ax) <= 2 * math.ulp(ax):
        return (1 if x > 0 else -1), r
    return None


def snap_exponent(p: Any) -> Fraction:
    """Python float exponents such as 1/3 -> the rational with denominator <= 64 within 1e-12."""
    if isinstance(p, SInt):
        p = p.concrete()
        if p is None:
            raise NotImplementedError("symbolic exponent")
    if isinstance(p, SReal):
        if p.const is None:
            raise NotImplementedError("symbolic exponent")
        p = p.const
    f = Fraction(p).limit_denominator(64)
    if abs(float(f) - float(p)) > 1e-12:
        raise NotImplementedError(f"exponent {p!r} is not a small rational")
    return f


class SReal:
    """Symbolic Python float (modelled as a real)."""

    # torch's C argument parser accepts any object that carries __torch_function__ where it expects a Tensor, and then hands the
    # call to the override: torch.mul(x, mult), torch.eq(idx, padding_idx), torch.div(y, mult) with a symbolic scalar reach engine S
    @classmethod
    def __torch_function__(cls, func: Any, types: Any, args: Any = (), kwargs: Any = None) -> Any:
        from .tensor import dispatch
        return dispatch(getattr(func, "__name__", str(func)), func, tuple(args), dict(kwargs or {}))

    __slots__ = ("z", "const", "is_int")

    def __init__(self, z: Any, const: Optional[Fraction] = None, is_int: bool = False):
        self.z = z
        self.const = const
        self.is_int = is_int

    def __repr__(self) -> str:
        return f"SReal({z3.simplify(self.z)})"

    def __hash__(self) -> int:
        return hash(self.z)

    def __float__(self) -> float:
        if self.const is not None:
            return float(self.const)
        raise TypeError("symbolic real -> float")

    def __bool__(self) -> bool:
        if self.const is not None:
            return self.const != 0
        return bool(SBool(self.z != 0))

    def _c(self, o: Any) -> Optional[Fraction]:
        return o.const if isinstance(o, SReal) else None

    def __add__(self, o: Any) -> Any:
        if _is_tensor(o):
            return NotImplemented
        b = _sreal(o)
        k = self.const + b.const if self.const is not None and b.const is not None else None
        return SReal(self.z + b.z, k)

    __radd__ = __add__

    def __sub__(self, o: Any) -> Any:
        if _is_tensor(o):
            return NotImplemented
        b = _sreal(o)
        k = self.const - b.const if self.const is not None and b.const is not None else None
        return SReal(self.z - b.z, k)

    def __rsub__(self, o: Any) -> Any:
        return _sreal(o) - self

    def __mul__(self, o: Any) -> Any:
        if _is_tensor(o):
            return NotImplemented
        b = _sreal(o)
        if self.const is not None and b.const is not None:
            return SReal(_q(self.const * b.const), self.const * b.const)
        if self.const == 1:
            return b
        if b.const == 1:
            return self
        ta, tb = _exp_arg(self.z), _exp_arg(b.z)
        if ta is not None and tb is not None:
            # exp(s) * exp(t) = exp(s + t): one exponential per product of powers (canonical form); the identity itself is handed to the
            # solver, for which Exp is uninterpreted
            r = sym_exp(SReal(ta + tb))
            ctx().defs.append(r.z == self.z * b.z)
            return r
        return SReal(self.z * b.z)

    __rmul__ = __mul__

    def __neg__(self) -> "SReal":
        return SReal(-self.z, -self.const if self.const is not None else None)

    def __pos__(self) -> "SReal":
        return self

    def __abs__(self) -> "SReal":
        return SReal(z3.If(self.z >= 0, self.z, -self.z))

    def __truediv__(self, o: Any) -> Any:
        if _is_tensor(o):
            return NotImplemented
        b = _sreal(o)
        if b.const is not None:
            if b.const == 0:
                raise ZeroDivisionError("float division by zero")
            if self.const is not None:
                return SReal(_q(self.const / b.const), self.const / b.const)
            if b.const == 1:
                return self
            return SReal(self.z / b.z)
        tb = _exp_arg(b.z)
        if tb is not None:  # x / exp(t) = x * exp(-t); exp never vanishes
            ta = _exp_arg(self.z)
            if ta is not None:
                r = sym_exp(SReal(ta - tb))
                ctx().defs.append(r.z * b.z == self.z)
                return r
            if self.const == 1:
                r = sym_exp(SReal(-tb))
                ctx().defs.append(r.z * b.z == 1)
                return r
        ctx().oblige(f"definedness: divisor {z3.simplify(b.z)} != 0", b.z != 0, kind="definedness")
        return SReal(self.z / b.z)

    def __rtruediv__(self, o: Any) -> Any:
        return _sreal(o) / self

    def __pow__(self, p: Any) -> "SReal":
        return sym_pow(self, p)

    def __rpow__(self, b: Any) -> Any:
        if self.const is not None:
            return sym_pow(_sreal(b), self.const)
        # base ** (symbolic exponent) = exp(exponent * log(base)); base > 0 is a definedness obligation for a symbolic base
        if isinstance(b, (int, float, Fraction)) and not isinstance(b, bool):
            if b <= 0:
                raise NotImplementedError("non-positive base with a symbolic exponent")
            return sym_exp(self * math.log(b)) if b != 1 else SReal(_q(1), Fraction(1))
        return sym_exp(self * sym_log(b))

    def _cmp(self, o: Any, op: str) -> Any:
        if _is_tensor(o):
            return NotImplemented  # python then asks the tensor's reflected operator (element-wise comparison)
        b = _sreal(o)
        return SBool(getattr(self.z, op)(b.z))

    def __eq__(self, o: Any) -> Any:  # type: ignore[override]
        if o is None or isinstance(o, str):
            return False
        return self._cmp(o, "__eq__")

    def __ne__(self, o: Any) -> Any:  # type: ignore[override]
        if o is None or isinstance(o, str):
            return True
        return self._cmp(o, "__ne__")

    def __lt__(self, o: Any) -> Any:
        return self._cmp(o, "__lt__")

    def __le__(self, o: Any) -> Any:
        return self._cmp(o, "__le__")

    def __gt__(self, o: Any) -> Any:
        return self._cmp(o, "__gt__")

    def __ge__(self, o: Any) -> Any:
        return self._cmp(o, "__ge__")


def _is_tensor(o: Any) -> bool:
    return hasattr(o, "__torch_function__") and not isinstance(o, (SReal, SInt))


def sym_pow(base: Any, p: Any) -> Any:
    """base ** p for a concrete rational p; replaces float.__pow__/math.pow on symbolic values."""
    if not isinstance(base, (SReal, SInt)) and not isinstance(p, (SReal, SInt)):
        return math.pow(base, p)
    if (isinstance(p, SReal) and p.const is None) or (isinstance(p, SInt) and p.concrete() is None):
        return _sreal(p).__rpow__(base)  # symbolic exponent: exp(p * log(base))
    f = snap_exponent(p)
    if isinstance(base, SReal) and _exp_arg(base.z) is not None:
        # exp(t) ** (n/d) = exp(n t / d), with the defining identity r^d = exp(t)^n for the solver
        r = sym_exp(SReal(_exp_arg(base.z) * z3.Q(f.numerator, f.denominator)))
        n_, d_ = abs(f.numerator), f.denominator
        lhs = z3.Product([r.z] * d_) if d_ > 1 else r.z
        rhs = (z3.Product([base.z] * n_) if n_ > 1 else base.z) if n_ > 0 else z3.RealVal(1)
        ctx().defs.append(lhs == rhs if f > 0 else lhs * rhs == 1)
        return r
    if isinstance(base, SInt) and f.denominator == 1 and f >= 0:
        return base ** int(f)
    b = _sreal(base)
    c = ctx()
    if b.const is not None and f.denominator == 1:
        v = b.const ** int(f)
        return SReal(_q(v), v)
    num, den = abs(f.numerator), f.denominator
    if den == 1:
        r = b
    else:
        key = (b.z.get_id(), den)
        if key not in c.roots:
            if den % 2 == 0:
                c.oblige(f"definedness: radicand {z3.simplify(b.z)} >= 0", b.z >= 0, kind="definedness")
            c.n += 1
            rv = z3.Real(f"root{den}[{z3.simplify(b.z)}]")
            c._keep.append(b.z)
            c.defs += [rv >= 0 if den % 2 == 0 else z3.BoolVal(True), z3.Product([rv] * den) == b.z]
            if den % 2 == 1:
                c.defs += [z3.Implies(b.z >= 0, rv >= 0), z3.Implies(b.z <= 0, rv <= 0)]
            c.roots[key] = rv
        r = SReal(c.roots[key])
    out = SReal(z3.Product([r.z] * num)) if num > 1 else (r if num == 1 else SReal(_q(1), Fraction(1)))
    if f < 0:
        out = 1 / out
    return out


def sym_log(x: Any) -> Any:
    if not isinstance(x, (SReal, SInt)):
        return math.log(x)
    b = _sreal(x)
    c = ctx()
    c.oblige(f"definedness: log argument {z3.simplify(b.z)} > 0", b.z > 0, kind="definedness")
    if not any(a.eq(b.z) for a in c.log_args):
        c.log_args.append(b.z)
        L = LOG(b.z)
        c.defs += [EXP(L) == b.z, z3.Implies(b.z > 1, L > 0), z3.Implies(b.z == 1, L == 0), z3.Implies(b.z < 1, L < 0)]
    return SReal(LOG(b.z))


def _exp_arg(z: Any) -> Any:
    """t when z is syntactically Exp(t)"""
    try:
        if z3.is_app(z) and z.decl().eq(EXP):
            return z.arg(0)
    except Exception:
        pass
    return None


def sym_exp(x: Any) -> Any:
    if not isinstance(x, (SReal, SInt)):
        return math.exp(x)
    b = _sreal(x)
    c = ctx()
    if not any(a.eq(b.z) for a in c.exp_args):
        c.exp_args.append(b.z)
        c.defs += [EXP(b.z) > 0, LOG(EXP(b.z)) == b.z]
    return SReal(EXP(b.z))


class MathShim:
    """Stands in for the `math` module inside unit_scaling.core.functional during a session."""

    def __getattr__(self, name: str) -> Any:
        return getattr(math, name)

    log = staticmethod(sym_log)
    exp = staticmethod(sym_exp)
    pow = staticmethod(sym_pow)

    @staticmethod
    def sqrt(x: Any) -> Any:
        return sym_pow(x, Fraction(1, 2)) if isinstance(x, (SReal, SInt)) else math.sqrt(x)

    @staticmethod
    def prod(xs: Any, start: Any = 1) -> Any:
        out = start
        for x in xs:
            out = out * x
        return out


class NumpyShim:
    """Stands in for `numpy` inside library modules during a session: the handful of scalar functions a library may apply to
    Python numbers get their documented real-number meaning on symbolic values; everything else is numpy's own."""

    def __getattr__(self, name: str) -> Any:
        import numpy
        return getattr(numpy, name)

    @staticmethod
    def _sym(*vs: Any) -> bool:
        return any(isinstance(v, (SReal, SInt)) for v in vs)

    @staticmethod
    def isclose(a: Any, b: Any, rtol: Any = 1e-5, atol: Any = 1e-8, equal_nan: bool = False) -> Any:
        """numpy's documented (asymmetric) rule: |a - b| <= atol + rtol * |b|"""
        if not NumpyShim._sym(a, b, rtol, atol):
            import numpy
            return numpy.isclose(a, b, rtol=rtol, atol=atol, equal_nan=equal_nan)
        a, b, rt, at = _sreal(a), _sreal(b), _sreal(rtol), _sreal(atol)
        ab = lambda v: z3.If(v >= 0, v, -v)  # noqa: E731
        return SBool(ab(a.z - b.z) <= at.z + rt.z * ab(b.z))

    @staticmethod
    def sqrt(x: Any) -> Any:
        if not NumpyShim._sym(x):
            import numpy
            return numpy.sqrt(x)
        return sym_pow(x, Fraction(1, 2))

    @staticmethod
    def power(x: Any, p: Any) -> Any:
        if not NumpyShim._sym(x, p):
            import numpy
            return numpy.power(x, p)
        return sym_pow(x, p)

    @staticmethod
    def prod(xs: Any, *a: Any, **k: Any) -> Any:
        xs = list(xs)
        if not NumpyShim._sym(*xs):
            import numpy
            return numpy.prod(xs, *a, **k)
        return MathShim.prod(xs)

    @staticmethod
    def log(x: Any) -> Any:
        if not NumpyShim._sym(x):
            import numpy
            return numpy.log(x)
        return sym_log(x)

    @staticmethod
    def exp(x: Any) -> Any:
        if not NumpyShim._sym(x):
            import numpy
            return numpy.exp(x)
        return sym_exp(x)

    @staticmethod
    def abs(x: Any) -> Any:
        if not NumpyShim._sym(x):
            import numpy
            return numpy.abs(x)
        return abs(_sreal(x))

    absolute = abs

    @staticmethod
    def square(x: Any) -> Any:
        return x * x


def sym_isclose(a: Any, b: Any, rel_tol: Any = 1e-9, abs_tol: Any = 0.0) -> Any:
    """math.isclose's documented formula: |a-b| <= max(rel_tol*max(|a|,|b|), abs_tol)."""
    if not any(isinstance(v, (SReal, SInt)) for v in (a, b, rel_tol, abs_tol)):
        return math.isclose(a, b, rel_tol=rel_tol, abs_tol=abs_tol)
    a, b, rt, at = _sreal(a), _sreal(b), _sreal(rel_tol), _sreal(abs_tol)
    ab = lambda v: z3.If(v >= 0, v, -v)
    mx = lambda u, v: z3.If(u >= v, u, v)
    return SBool(ab(a.z - b.z) <= mx(rt.z * mx(ab(a.z), ab(b.z)), at.z))


# =============================================================================== solving
def solve_obligation(c: Ctx, ob: Dict[str, Any], timeout_s: float = 30.0) -> Tuple[str, Any, float]:
    """('unsat'|'sat'|'unknown', model, seconds) for  background & path & not claim  (dims relaxed to reals)."""
    cs = c.background(ob["ndefs"] if ob["kind"] == "definedness" else None) + ob["path"] + [z3.Not(ob["claim"])]
    return portfolio(cs, timeout_s)


def portfolio(cs: List[Any], timeout_s: float = 30.0) -> Tuple[str, Any, float]:
    t0 = time.time()
    has_uf = any(_has_uf(x) for x in cs)
    plans = [("default", timeout_s / 3)] if has_uf else [("qfnra-nlsat", timeout_s / 3), ("default", timeout_s / 3)]
    plans.append(("default", timeout_s))
    last = "unknown"
    for tac, t in plans:
        s = z3.Solver() if tac == "default" else z3.Tactic(tac).solver()
        s.set("timeout", max(1000, int(t * 1000)))
        s.add(*cs)
        r = str(s.check())
        if r == "unsat":
            return "unsat", None, time.time() - t0
        if r == "sat":
            return "sat", s.model(), time.time() - t0
        last = r
    return last, None, time.time() - t0


def _has_uf(e: Any) -> bool:
    seen = set()
    stack = [e]
    while stack:
        x = stack.pop()
        if x.get_id() in seen:
            continue
        seen.add(x.get_id())
        if z3.is_app(x) and x.decl().kind() == z3.Z3_OP_UNINTERPRETED and x.num_args() > 0:
            return True
        stack.extend(x.children())
    return False


def integer_model(c: Ctx, cs: List[Any], model: Any, timeout_s: float = 20.0) -> Optional[Dict[str, Any]]:
    """Turn a relaxed model into one where every dimension symbol is an integer (needed for replay)."""
    dims = list(c.dims.items())
    vals = {n: model.eval(v, model_completion=True) for n, v in dims}
    def _small(x: Any) -> bool:
        return (z3.is_int_value(x) or (z3.is_rational_value(x) and x.denominator_as_long() == 1)) and abs(x.numerator_as_long()) <= 64

    if all(_small(x) for x in vals.values()):
        return _model_dict(c, model)
    all_int = all(z3.is_rational_value(x) and x.denominator_as_long() == 1 for x in vals.values())
    s = z3.Solver()
    s.set("timeout", int(timeout_s * 1000))
    s.add(*cs)
    for n, v in dims:
        s.add(z3.IsInt(v))
    # prefer small dims: bounded search first
    for bound in (8, 64, 4096):
        s.push()
        for n, v in dims:
            if not n.startswith(("quo!", "rem!")):
                s.add(v <= bound)
        if str(s.check()) == "sat":
            return _model_dict(c, s.model())
        s.pop()
    if all_int:
        return _model_dict(c, model)
    if str(s.check()) == "sat":
        return _model_dict(c, s.model())
    return None


def _model_dict(c: Ctx, m: Any) -> Dict[str, Any]:
    out: Dict[str, Any] = {}
    for n, v in list(c.dims.items()) + list(c.reals.items()) + list(c.extra_vars.items()):
        x = m.eval(v, model_completion=True)
        if z3.is_int_value(x):
            out[n] = x.as_long()
        elif z3.is_rational_value(x):
            fr = Fraction(x.numerator_as_long(), x.denominator_as_long())
            out[n] = int(fr) if fr.denominator == 1 else float(fr)
        elif z3.is_algebraic_value(x):
            out[n] = float(x.approx(20).as_fraction())
        else:
            out[n] = str(x)
    return out


# =============================================================================== driver
def explore(harness: Callable[[Ctx], Any], max_paths: int = 256) -> List[Tuple[Ctx, Any, Optional[BaseException]]]:
    """Run `harness` along every feasible path.  Returns (ctx, result, exception) per path."""
    work: List[List[bool]] = [[]]
    out: List[Tuple[Ctx, Any, Optional[BaseException]]] = []
    while work:
        if len(out) >= max_paths:
            raise PathLimit(f"more than {max_paths} paths")
        prefix = work.pop()
        c = Ctx(prefix)
        res, exc = None, None
        with c:
            try:
                res = harness(c)
            except Infeasible:
                continue
            except Exception as e:  # library exceptions are path outcomes (ValueError etc.)
                exc = e
        work.extend(c.alternatives)
        out.append((c, res, exc))
    return out


REL = z3.Q(1, 10 ** 9)


def approx(a: Any, b: Any) -> Any:
    """|a - b| <= 1e-9 * |b|  (z3)"""
    a = a.z if isinstance(a, SReal) else a
    b = b.z if isinstance(b, SReal) else b
    ab = z3.If(b >= 0, b, -b)
    return z3.And(a - b <= REL * ab, b - a <= REL * ab)
