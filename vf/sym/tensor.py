"""Engine S, part 2: symbolic tensors.

An STensor is NOT a torch.Tensor.  It intercepts every torch call the library makes through
__torch_function__ and carries
  * shape  : SSize of SInt/int (symbolic dimensions),
  * meta   : a real torch *meta* tensor at the sample point of the dimension symbols - torch itself decides
             dtype promotion and validates each handler's shape rule on every call,
  * lc     : the value, a linear combination  sum_i c_i * T_i  of hash-consed opaque terms T_i (leaves are
             universally quantified input tensors) with z3 Real coefficients c_i,
  * node   : mini-autograd tape entry (the real forward/backward bodies of the library's autograd.Functions
             are what runs; torch ops get an opaque, linear-in-g  vjp  term),
  * version: bumped by in-place methods ("no input tensor is modified").
"""
from __future__ import annotations

import itertools
from fractions import Fraction
import copy as _copy
from typing import Any, Callable, Dict, List, Optional, Sequence, Tuple

import torch
import torch.nn.functional as F
import z3

from .scalar import Ctx, SBool, SInt, SReal, _q, _sreal, ctx, snap_exponent


class HarnessError(Exception):
    """A stub contract disagrees with the installed torch, or an op has no handler."""


# =============================================================================== shapes
class SSize(tuple):
    def numel(self) -> Any:
        out: Any = 1
        for d in self:
            out = out * d
        return out

    def __getitem__(self, i: Any) -> Any:
        r = tuple.__getitem__(self, i)
        return SSize(r) if isinstance(i, slice) else r

    def __add__(self, o: Any) -> "SSize":
        return SSize(tuple.__add__(self, tuple(o)))

    def __radd__(self, o: Any) -> "SSize":
        return SSize(tuple(o) + tuple(self))

    def sample(self) -> Tuple[int, ...]:
        return tuple(d.sample if isinstance(d, SInt) else int(d) for d in self)


def dim_eq(a: Any, b: Any) -> Any:
    if isinstance(a, SInt) or isinstance(b, SInt):
        return a == b
    return a == b


def broadcast_shapes(*shapes: Any) -> SSize:
    n = max(len(s) for s in shapes)
    out: List[Any] = []
    for i in range(1, n + 1):
        cur: Any = 1
        for s in shapes:
            if i > len(s):
                continue
            d = s[-i]
            if isinstance(cur, int) and cur == 1:
                cur = d
            elif isinstance(d, int) and d == 1:
                continue
            elif bool(dim_eq(cur, d)):
                continue
            elif bool(dim_eq(cur, 1)):
                cur = d
            elif bool(dim_eq(d, 1)):
                continue
            else:
                raise RuntimeError(f"The size of tensor a ({cur}) must match the size of tensor b ({d})")
        out.append(cur)
    return SSize(reversed(out))


# =============================================================================== terms
class Term:
    __slots__ = ("op", "args", "kw", "key", "skel")

    def __init__(self, op: str, args: Tuple[Any, ...] = (), kw: Tuple[Tuple[str, Any], ...] = ()):
        self.op = op
        self.args = args
        self.kw = kw
        self.key = (op, tuple(_key(a) for a in args), tuple((k, _key(v)) for k, v in kw))
        self.skel = (op, tuple(_skel(a) for a in args), tuple((k, _skel(v)) for k, v in kw))

    def __repr__(self) -> str:
        if self.op == "leaf":
            return str(self.args[0])
        a = ", ".join(_show(x) for x in self.args)
        k = ", ".join(f"{k}={_show(v)}" for k, v in self.kw)
        return f"{self.op}({a}{', ' + k if k else ''})"


class LC(tuple):
    """linear combination: tuple of (coef z3 Real, Term)"""

    def __repr__(self) -> str:
        return " + ".join(f"[{z3.simplify(c)}]*{t!r}" for c, t in self) or "0"


_KEEP: List[Any] = []


def _zid(z: Any) -> int:
    zs = z3.simplify(z)
    _KEEP.append(zs)
    if len(_KEEP) > 200000:
        del _KEEP[:100000]
    return zs.get_id()


def _key(a: Any) -> Any:
    if isinstance(a, LC):
        return ("lc",) + tuple((_zid(c), t.key) for c, t in a)
    if isinstance(a, SReal):
        return ("sr", _zid(a.z))
    if isinstance(a, SInt):
        return ("si", str(a.e))
    if isinstance(a, (tuple, list)):
        return ("tup",) + tuple(_key(x) for x in a)
    if isinstance(a, float):
        return ("f", repr(a))
    return ("c", repr(a))


def _skel(a: Any) -> Any:
    if isinstance(a, LC):
        return ("lc",) + tuple(sorted((t.skel for _, t in a), key=repr))  # a sum: order-insensitive
    if isinstance(a, (SReal, SInt)):
        return ("sym",)
    if isinstance(a, (tuple, list)):
        return ("tup",) + tuple(_skel(x) for x in a)
    if isinstance(a, (int, float)) and not isinstance(a, bool):
        return ("sym",)  # numbers compare by value through the solver (1 vs 1.0, 0.5 vs root terms)
    return ("c", repr(a))


def _show(a: Any) -> str:
    if isinstance(a, SReal):
        return str(z3.simplify(a.z))
    if isinstance(a, SInt):
        return str(a.e)
    return repr(a)


ONE = z3.RealVal(1)


def lc_leaf(name: str) -> LC:
    return LC(((ONE, Term("leaf", (name,))),))


def lc_scale(lc: LC, z: Any) -> LC:
    return LC(tuple((z3.simplify(c * z), t) for c, t in lc))


def lc_add(a: LC, b: LC, sign: int = 1) -> LC:
    out: List[List[Any]] = [[c, t] for c, t in a]
    idx = {t.key: i for i, (c, t) in enumerate(a)}
    for c, t in b:
        c2 = c if sign == 1 else -c
        if t.key in idx:
            out[idx[t.key]][0] = z3.simplify(out[idx[t.key]][0] + c2)
        else:
            idx[t.key] = len(out)
            out.append([z3.simplify(c2), t])
    return LC(tuple((c, t) for c, t in out))


def unify(a: Any, b: Any, pairs: List[Tuple[Any, Any]]) -> Optional[str]:
    """Structural unification of two values; appends the (z3, z3) pairs that must be equal.  Returns a
    mismatch description or None."""
    if isinstance(a, LC) and isinstance(b, LC):
        if len(a) != len(b):
            return f"different number of terms: {a!r} vs {b!r}"
        used = [False] * len(b)
        for ca, ta in a:
            found = None
            for j, (cb, tb) in enumerate(b):
                if not used[j] and ta.skel == tb.skel:
                    found = j
                    break
            if found is None:
                return f"term {ta!r} has no structural counterpart in {b!r}"
            used[found] = True
            cb, tb = b[found]
            pairs.append((ca, cb))
            m = unify(ta, tb, pairs)
            if m:
                return m
        return None
    if isinstance(a, Term) and isinstance(b, Term):
        if a.op != b.op or len(a.args) != len(b.args) or len(a.kw) != len(b.kw):
            return f"{a!r} vs {b!r}"
        for x, y in zip(a.args, b.args):
            m = unify(x, y, pairs)
            if m:
                return m
        for (k1, x), (k2, y) in zip(a.kw, b.kw):
            if k1 != k2:
                return f"keyword {k1} vs {k2}"
            m = unify(x, y, pairs)
            if m:
                return m
        return None
    num = (SReal, SInt, int, float, Fraction)
    if isinstance(a, num) and isinstance(b, num) and not isinstance(a, bool) and not isinstance(b, bool):
        pairs.append((_sreal(a).z, _sreal(b).z))
        return None
    if isinstance(a, (tuple, list)) and isinstance(b, (tuple, list)):
        if len(a) != len(b):
            return f"{a!r} vs {b!r}"
        for x, y in zip(a, b):
            m = unify(x, y, pairs)
            if m:
                return m
        return None
    if type(a) is type(b) and a == b:
        return None
    return f"static argument {a!r} vs {b!r}"


# =============================================================================== autograd tape
class Node:
    __slots__ = ("parents", "vjp", "seq", "name")
    counter = itertools.count()

    def __init__(self, parents: List["STensor"], vjp: Callable[[LC], List[Optional[LC]]], name: str = ""):
        self.parents = parents
        self.vjp = vjp
        self.seq = next(Node.counter)
        self.name = name


class Mode:
    grad = True
    active = 0
    events: List[str] = []  # structural observations of a run (e.g. a low-precision scalar tensor multiplying a higher-precision tensor)


class no_grad:
    def __enter__(self) -> None:
        self.prev = Mode.grad
        Mode.grad = False

    def __exit__(self, *a: Any) -> None:
        Mode.grad = self.prev


# =============================================================================== STensor
FLOATS = (torch.float64, torch.float32, torch.bfloat16, torch.float16)


class STensor:
    def __init__(self, lc: LC, shape: Sequence[Any], meta: torch.Tensor, requires_grad: bool = False,
                 node: Optional[Node] = None, const: Optional[SReal] = None, name: str = ""):
        self.lc = lc
        self.shape = SSize(shape)
        if isinstance(meta, OffPathMeta):
            meta = torch.empty(self.shape.sample(), dtype=meta.dtype, device="meta")
        self.meta = meta
        self.requires_grad = requires_grad or node is not None
        self.node = node
        self.const = const  # 0-dim constant tensor holding a (symbolic) scalar: behaves as a scalar factor
        self.version = 0
        self.grad: Optional[LC] = None
        self.name = name
        self.is_leaf = node is None
        if tuple(meta.shape) != self.shape.sample():
            if _sample_off_path():
                # the current path condition (e.g. kernel == 1) excludes the sample point at which the shadow meta tensors live:
                # torch's shape at the sample says nothing about this path - continue with the rule's own shape
                self.meta = torch.empty(self.shape.sample(), dtype=meta.dtype, device="meta")
            else:
                raise HarnessError(f"shape rule {self.shape} (sample {self.shape.sample()}) disagrees with torch's {tuple(meta.shape)} for {lc!r}")

    # ---- construction
    @staticmethod
    def leaf(name: str, shape: Sequence[Any], dtype: torch.dtype = torch.float32, requires_grad: bool = False) -> "STensor":
        sh = SSize(shape)
        return STensor(lc_leaf(name), sh, torch.empty(sh.sample(), dtype=dtype, device="meta"), requires_grad, name=name)

    @staticmethod
    def scalar(value: Any, dtype: torch.dtype = torch.float32) -> "STensor":
        v = _sreal(value)
        t = STensor(LC(((v.z, Term("one")),)), (), torch.empty((), dtype=dtype, device="meta"), const=v)
        return t

    # ---- attributes
    @property
    def dtype(self) -> torch.dtype:
        return self.meta.dtype

    @property
    def device(self) -> torch.device:
        return torch.device("cpu")

    @property
    def data(self) -> "STensor":
        return self

    @property
    def ndim(self) -> int:
        return len(self.shape)

    def dim(self) -> int:
        return len(self.shape)

    def size(self, i: Optional[int] = None) -> Any:
        return self.shape if i is None else self.shape[i]

    def numel(self) -> Any:
        return self.shape.numel()

    nelement = numel

    def nelement(self) -> Any:
        return self.numel()

    def ndimension(self) -> int:
        return self.dim()

    def is_floating_point(self) -> bool:
        return self.meta.is_floating_point()

    def requires_grad_(self, flag: bool = True) -> "STensor":
        self.requires_grad = flag
        return self

    def __len__(self) -> int:
        d = self.shape[0]
        return d.__index__() if isinstance(d, SInt) else d

    def __repr__(self) -> str:
        return f"STensor({self.lc!r}, shape={tuple(self.shape)}, {self.dtype})"

    # ---- dispatch
    @classmethod
    def __torch_function__(cls, func: Any, types: Any, args: Any = (), kwargs: Any = None) -> Any:
        return dispatch(getattr(func, "__name__", str(func)), func, tuple(args), dict(kwargs or {}))

    def __getattr__(self, name: str) -> Any:
        if name.startswith("__") or name in ("lc", "shape", "meta"):
            raise AttributeError(name)
        tfn = getattr(torch.Tensor, name, None)
        if tfn is None:
            raise AttributeError(name)
        if name.endswith("_") and not name.endswith("__"):
            base = name[:-1]

            def inplace(*a: Any, **k: Any) -> "STensor":
                res = dispatch(base, getattr(torch.Tensor, base), (self._snapshot(),) + a, k)
                return self._assign(res)

            return inplace
        return lambda *a, **k: dispatch(name, tfn, (self,) + a, k)

    def _snapshot(self) -> "STensor":
        """the value before an in-place update, as a distinct tape object (the update's parent)"""
        t = STensor(self.lc, self.shape, self.meta, node=self.node, const=self.const, name=self.name)
        t.requires_grad = self.requires_grad
        if self.node is None and self.requires_grad:
            # in-place on a leaf that requires grad: gradients must still reach the leaf object
            t.node = Node([self], lambda g: [g], "alias")
        return t

    def _assign(self, res: "STensor") -> "STensor":
        self.lc, self.node, self.const = res.lc, res.node, res.const
        self.requires_grad = self.requires_grad or res.requires_grad
        self.version += 1
        return self

    def _b(name: str, swap: bool = False) -> Callable[..., Any]:  # type: ignore[misc]
        def op(self: "STensor", o: Any) -> Any:
            a, b = (o, self) if swap else (self, o)
            return dispatch(name, getattr(torch, name), (a, b), {})

        return op

    __add__ = _b("add")
    __radd__ = _b("add", True)
    __sub__ = _b("sub")
    __rsub__ = _b("sub", True)
    __mul__ = _b("mul")
    __rmul__ = _b("mul", True)
    __truediv__ = _b("true_divide")
    __rtruediv__ = _b("true_divide", True)
    __matmul__ = _b("matmul")

    def __neg__(self) -> Any:
        return dispatch("neg", torch.neg, (self,), {})

    def __eq__(self, o: Any) -> Any:  # type: ignore[override]  # element-wise, like torch.Tensor (the engine itself compares tensors with `is`)
        if o is None or isinstance(o, str):
            return False
        return dispatch("eq", torch.eq, (self, o), {})

    def __ne__(self, o: Any) -> Any:  # type: ignore[override]
        if o is None or isinstance(o, str):
            return True
        return dispatch("ne", torch.ne, (self, o), {})

    __hash__ = object.__hash__

    def register_hook(self, fn: Any) -> Any:
        """torch.Tensor.register_hook: fn sees the TOTAL gradient of this tensor once and may replace it.  The tape gets an identity
        node in front of the tensor's producer whose vjp calls the hook."""
        if not self.requires_grad:
            raise RuntimeError("cannot register a hook on a tensor that doesn't require gradient")
        inner = self._snapshot()

        def vjp(g: LC, _self: "STensor" = self, _fn: Any = fn) -> List[Optional[LC]]:
            r = _fn(STensor(g, _self.shape, _self.meta))
            return [r.lc if isinstance(r, STensor) else g]

        self.node = Node([inner], vjp, "hook")

        class _Handle:
            def remove(self) -> None:  # removal after use is all the library could need; the tape of a finished run is not replayed
                pass

        return _Handle()

    def __gt__(self, o: Any) -> Any:
        return dispatch("gt", torch.gt, (self, o), {})

    def __lt__(self, o: Any) -> Any:
        return dispatch("lt", torch.lt, (self, o), {})

    def __ge__(self, o: Any) -> Any:
        return dispatch("ge", torch.ge, (self, o), {})

    def __le__(self, o: Any) -> Any:
        return dispatch("le", torch.le, (self, o), {})

    def __abs__(self) -> Any:
        return dispatch("abs", torch.abs, (self,), {})

    def __pow__(self, p: Any) -> Any:
        return dispatch("pow", torch.pow, (self, p), {})

    def _ib(name: str) -> Callable[..., Any]:  # type: ignore[misc]
        def op(self: "STensor", o: Any) -> Any:
            return self._assign(dispatch(name, getattr(torch, name), (self._snapshot(), o), {}))

        return op

    __iadd__ = _ib("add")
    __isub__ = _ib("sub")
    __imul__ = _ib("mul")
    __itruediv__ = _ib("true_divide")

    def __getitem__(self, idx: Any) -> Any:
        return dispatch("getitem", None, (self, idx), {})

    def __iter__(self) -> Any:
        return iter([self[i] for i in range(len(self))])

    def backward(self, gradient: Any = None) -> None:
        g = gradient.lc if isinstance(gradient, STensor) else (gradient if isinstance(gradient, LC) else lc_leaf("G_out"))
        backward(self, g)


def _sample_off_path() -> bool:
    c = Ctx.cur
    if c is None or not c.path:
        return False
    s = z3.Solver()
    s.set("timeout", 2000)
    s.add(*c.path)
    for n, v in c.dims.items():
        if n in c.samples:
            s.add(v == c.samples[n])
    return str(s.check()) == "unsat"


# =============================================================================== backward pass
GRAD_RECORD: Optional[Dict[int, LC]] = None  # when set: id(tensor) -> total gradient that reached it


def backward(root: STensor, g: LC) -> None:
    grads: Dict[int, LC] = {id(root): g}
    tensors: Dict[int, STensor] = {id(root): root}
    order: List[STensor] = []
    seen = set()

    def visit(t: STensor) -> None:
        if id(t) in seen:
            return
        seen.add(id(t))
        if t.node is not None:
            for p in t.node.parents:
                if isinstance(p, STensor) and p.requires_grad:
                    visit(p)
        order.append(t)

    visit(root)
    for t in reversed(order):  # reverse topological (children before parents)
        gt = grads.get(id(t))
        if gt is None:
            continue
        if GRAD_RECORD is not None:
            GRAD_RECORD[id(t)] = gt
        if t.node is None:
            if t.requires_grad:
                t.grad = gt if t.grad is None else lc_add(t.grad, gt)
            continue
        with no_grad():
            outs = t.node.vjp(gt)
        for p, gp in zip(t.node.parents, outs):
            if gp is None or not isinstance(p, STensor) or not p.requires_grad:
                continue
            grads[id(p)] = gp if id(p) not in grads else lc_add(grads[id(p)], gp)
            tensors[id(p)] = p


# =============================================================================== op helpers
def _meta_args(x: Any) -> Any:
    if isinstance(x, STensor):
        return x.meta
    if isinstance(x, torch.Tensor) and x.device.type != "meta" and x.dim() > 0:
        return torch.empty(x.shape, dtype=x.dtype, device="meta")
    if isinstance(x, SReal):
        return 0.5 if x.const is None else float(x.const)
    if isinstance(x, SInt):
        return x.sample
    if isinstance(x, (tuple, list)):
        return type(x)(_meta_args(v) for v in x)
    return x


class OffPathMeta:
    """placeholder for torch's answer when the path condition excludes the sample point of the shadow meta tensors
    (e.g. the branch `kernel_size == 1` with sample kernel 3): only the dtype is known; the shape comes from the stub's rule"""

    def __init__(self, dtype: torch.dtype):
        self.dtype = dtype
        self.shape = ()

    def is_floating_point(self) -> bool:
        return self.dtype.is_floating_point


def _run_meta(func: Any, args: Tuple[Any, ...], kwargs: Dict[str, Any]) -> Any:
    try:
        return func(*[_meta_args(a) for a in args], **{k: _meta_args(v) for k, v in kwargs.items()})
    except (NotImplementedError,) as e:
        raise HarnessError(f"meta execution failed for {func}: {e}")
    except (RuntimeError, ValueError, IndexError):
        if _sample_off_path():
            dts = [a.dtype for a in list(args) + list(kwargs.values()) if isinstance(a, STensor)]
            fl = [d for d in dts if d.is_floating_point]
            return OffPathMeta((fl or dts or [torch.float32])[0])
        raise


def _scalar_of(x: Any) -> Optional[SReal]:
    """Python/symbolic scalar, constant scalar STensor, or real one-element torch tensor -> SReal."""
    if isinstance(x, (SReal, SInt)):
        return _sreal(x)
    if isinstance(x, bool):
        return None
    if isinstance(x, (int, float, Fraction)):
        return _sreal(x)
    if isinstance(x, STensor) and x.const is not None:
        return x.const
    if isinstance(x, torch.Tensor) and x.numel() == 1 and x.dim() == 0:
        return _sreal(x.item())
    return None


LIFTED: Dict[int, Any] = {}


def lift(t: Any) -> Any:
    """a real tensor met during symbolic execution (module parameter fetched by get_attr, buffer) becomes a leaf"""
    if not isinstance(t, torch.Tensor) or isinstance(t, STensor):
        return t
    if t.dim() == 0 and not t.requires_grad:
        return t
    key = id(t)
    if key not in LIFTED:
        LIFTED[key] = (t, STensor.leaf(f"real{len(LIFTED)}", tuple(t.shape), t.dtype, requires_grad=bool(t.requires_grad)))
    return LIFTED[key][1]


def opaque(name: str, targs: List[Any], kw: Dict[str, Any], shape: Sequence[Any], meta: torch.Tensor,
           diff: Optional[List[int]] = None) -> STensor:
    targs = [lift(a) for a in targs]
    """A torch op as an uninterpreted term over its (normal-form) operands; vjp_i is a fresh term linear in g."""
    args = tuple(a.lc if isinstance(a, STensor) else a for a in targs)
    kwt = tuple(sorted(kw.items()))
    term = Term(name, args, kwt)
    parents = [a for a in targs if isinstance(a, STensor)]
    idxs = [i for i, a in enumerate(targs) if isinstance(a, STensor)]
    node = None
    if Mode.grad and any(p.requires_grad for p in parents) and meta.is_floating_point():
        def vjp(g: LC, _idxs: List[int] = idxs, _parents: List[STensor] = parents) -> List[Optional[LC]]:
            outs: List[Optional[LC]] = []
            for i, p in zip(_idxs, _parents):
                if not p.requires_grad or not p.meta.is_floating_point() or (diff is not None and i not in diff):
                    outs.append(None)
                    continue
                outs.append(LC(tuple((c, Term(f"vjp[{name},{i}]", args + (LC(((ONE, G),)),), kwt)) for c, G in g)))
            return outs

        node = Node(parents, vjp, name)
    return STensor(LC(((ONE, term),)), shape, meta, node=node)


def _scaled(t: STensor, s: SReal, meta: torch.Tensor, inverse: bool = False) -> STensor:
    """t * s (or t / s) for a scalar s: stays in normal form; the gradient is scaled by the same factor."""
    if inverse:
        if s.const is not None and s.const == 0:
            raise ZeroDivisionError("division by zero")
        if s.const is None:
            ctx().oblige(f"definedness: tensor divisor {z3.simplify(s.z)} != 0", s.z != 0, kind="definedness")
        f = 1 / s.z
    else:
        f = s.z
    node = None
    if Mode.grad and t.requires_grad:
        node = Node([t], lambda g, _f=f: [lc_scale(g, _f)], "scale")
    const = None
    if t.const is not None:
        const = SReal(z3.simplify(t.const.z * f))
    return STensor(lc_scale(t.lc, f), t.shape if (isinstance(meta, OffPathMeta) or len(t.shape) >= len(meta.shape)) else meta.shape, meta, node=node, const=const)


def _single(lc: LC) -> Optional[Tuple[Any, Term]]:
    return lc[0] if len(lc) == 1 else None


# =============================================================================== dispatcher
ALIASES = {"multiply": "mul", "divide": "true_divide", "div": "true_divide", "subtract": "sub",
           "__mul__": "mul", "__rmul__": "mul", "__add__": "add", "__radd__": "add", "__sub__": "sub",
           "__truediv__": "true_divide", "__rtruediv__": "rtrue_divide", "__rsub__": "rsub",
           "clip": "clamp", "scaled_dot_product_attention": "sdpa", "__matmul__": "matmul"}

ELEMENTWISE_UNARY = {"gelu", "silu", "sigmoid", "tanh", "relu", "exp", "log", "erf", "abs", "sin", "cos", "softplus", "elu", "leaky_relu", "hardtanh"}


def dispatch(name: str, func: Any, args: Tuple[Any, ...], kwargs: Dict[str, Any]) -> Any:
    name = ALIASES.get(name, name)
    args = tuple(lift(a) for a in args)
    kwargs = {k: lift(v) for k, v in kwargs.items()}
    h = HANDLERS.get(name)
    if h is None:
        if name in ELEMENTWISE_UNARY:
            return _h_unary(name, func, args, kwargs)
        if name in _METHOD_FORMS and args and isinstance(args[0], STensor):
            # function spelling of something STensor answers itself: torch.numel(t), torch.is_floating_point(t), ...
            return getattr(args[0], name)(*args[1:], **kwargs)
        return _h_generic(name, func, args, kwargs)
    return h(name, func, args, kwargs)


_METHOD_FORMS = {"numel", "nelement", "dim", "ndimension", "size", "is_floating_point"}
# non-tensor answers that depend on the dtype/rank only (never on a dimension size or on data): torch's answer on the meta tensor is exact
_METADATA_ONLY = {"is_complex", "is_signed", "is_contiguous", "element_size", "is_inference", "is_conj", "is_neg",
                  "is_sparse", "is_quantized", "is_meta", "is_cuda", "is_cpu", "get_device", "result_type", "can_cast", "promote_types",
                  "is_leaf", "is_pinned", "is_shared", "is_coalesced", "is_distributed", "is_nested", "is_mkldnn"}


def _h_generic(name: str, func: Any, args: Tuple[Any, ...], kw: Dict[str, Any]) -> Any:
    """An op without a dedicated stub: an uninterpreted term whose shape torch decides on the meta tensors.  It can
    only unify with itself, so a claim that needs its semantics is refuted symbolically and decided by the replay."""
    if func is None:
        raise HarnessError(f"engine S has no stub for torch op '{name}'")
    try:
        meta = func(*[_meta_args(a) for a in args], **{k: _meta_args(v) for k, v in kw.items()})
    except Exception as e:
        raise HarnessError(f"engine S has no stub for torch op '{name}' and meta execution failed: {e}")
    if not isinstance(meta, torch.Tensor):
        if name in _METADATA_ONLY and isinstance(meta, (bool, int, torch.dtype, type(None))):
            return meta
        raise HarnessError(f"engine S has no stub for torch op '{name}' (non-tensor result)")
    ts = [a for a in args if isinstance(a, STensor)]
    dims: List[Any] = list(meta.shape)
    for i, d in enumerate(meta.shape):  # a result dim that coincides with an operand's dim at the same position is that dimension symbol
        for t in ts:
            if len(t.shape) == len(meta.shape) and t.shape.sample()[i] == d:
                dims[i] = t.shape[i]
                break
    shape: Tuple[Any, ...] = tuple(dims)
    ctx().events.append(f"generic stub for {name}")
    statics = {k: (v if not isinstance(v, torch.dtype) else str(v)) for k, v in kw.items() if not isinstance(v, STensor)}
    return opaque(f"?{name}", list(args), statics, shape, meta)


def _h_unary(name: str, func: Any, args: Tuple[Any, ...], kw: Dict[str, Any]) -> STensor:
    x = args[0]
    kw2 = {k: v for k, v in kw.items()}
    if kw2.get("inplace"):
        raise HarnessError("inplace activation")
    kw2.pop("inplace", None)
    extra = list(args[1:])
    meta = _run_meta(func, (x,) + tuple(extra), kw2)
    return opaque(name, [x] + extra, kw2, x.shape, meta)


def _binary_operands(args: Tuple[Any, ...]) -> Tuple[Any, Any]:
    return args[0], args[1]


def _h_mul(name: str, func: Any, args: Tuple[Any, ...], kw: Dict[str, Any]) -> Any:
    a, b = _binary_operands(args)
    meta = _run_meta(torch.mul, (a, b), {})
    sa, sb = _scalar_of(a), _scalar_of(b)
    for t, k in ((a, b), (b, a)):
        if (isinstance(t, STensor) and isinstance(k, STensor) and k.const is not None and t.const is None and t.meta.is_floating_point()
                and not isinstance(k.meta, OffPathMeta) and not isinstance(t.meta, OffPathMeta)
                and (not k.meta.is_floating_point() or torch.finfo(k.dtype).eps > torch.finfo(t.dtype).eps)):
            # the factor was stored in a tensor that cannot hold it to the precision of what it multiplies (an integer or a
            # lower-precision float dtype): in real arithmetic the product is exact, on the machine it is not
            Mode.events.append(f"a {k.dtype} scalar tensor multiplies a {t.dtype} tensor")
    if isinstance(a, STensor) and sb is not None and not (a.const is not None and isinstance(b, STensor) and b.const is None):
        return _scaled(a, sb, meta)
    if isinstance(b, STensor) and sa is not None:
        return _scaled(b, sa, meta)
    if not (isinstance(a, STensor) and isinstance(b, STensor)):
        raise HarnessError(f"mul operands {type(a)}, {type(b)}")
    shape = broadcast_shapes(a.shape, b.shape)
    ta, tb = _single(a.lc), _single(b.lc)
    if ta is not None and tb is not None:  # bilinear: pull coefficients out
        ua = STensor(LC(((ONE, ta[1]),)), a.shape, a.meta, node=None)
        ub = STensor(LC(((ONE, tb[1]),)), b.shape, b.meta, node=None)
        core = _mul_term(ua.lc, ub.lc)
        coef = z3.simplify(ta[0] * tb[0])
        out_lc = lc_scale(core, coef)
    else:
        out_lc = _mul_term(a.lc, b.lc)
    node = None
    if Mode.grad and (a.requires_grad or b.requires_grad):
        def vjp(g: LC, _a: STensor = a, _b: STensor = b) -> List[Optional[LC]]:
            ga = _mul_lc(g, _b.lc, _a) if _a.requires_grad else None
            gb = _mul_lc(g, _a.lc, _b) if _b.requires_grad else None
            return [ga, gb]

        node = Node([a, b], vjp, "mul")
    return STensor(out_lc, shape, meta, node=node)


def _mul_term(u: LC, v: LC) -> LC:
    """elementwise product of two operands in normal form: commutative (operands ordered by key); u*u is pow(u, 2)"""
    ku, kv = _key(u), _key(v)
    if ku == kv:
        return _pow_lc(u, Fraction(2))
    if repr(ku) > repr(kv):
        u, v = v, u
    return LC(((ONE, Term("mul", (u, v))),))


def _mul_lc(g: LC, other: LC, target: STensor) -> LC:
    """g * other, reduced to target's shape (opaque 'mulsum' term, linear in g)."""
    out: List[Tuple[Any, Term]] = []
    so = _single(other)
    for c, G in g:
        if so is not None:
            out.append((z3.simplify(c * so[0]), Term("mul_to", (LC(((ONE, G),)), LC(((ONE, so[1]),)), tuple(str(d) for d in target.shape)))))
        else:
            out.append((c, Term("mul_to", (LC(((ONE, G),)), other, tuple(str(d) for d in target.shape)))))
    return LC(tuple(out))


def _h_div(name: str, func: Any, args: Tuple[Any, ...], kw: Dict[str, Any]) -> Any:
    a, b = _binary_operands(args)
    if name == "rtrue_divide":
        a, b = b, a
    meta = _run_meta(torch.true_divide, (a, b), {})
    sb = _scalar_of(b)
    if isinstance(a, STensor) and sb is not None:
        return _scaled(a, sb, meta, inverse=True)
    if isinstance(a, STensor) and isinstance(b, STensor):
        # a / b  ==  a * b**-1  (one canonical spelling for x / rms, x * rms.reciprocal(), x * rsqrt(ms), ...)
        r = _pow_tensor(b, Fraction(-1), _run_meta(torch.reciprocal, (b,), {}) if b.meta.is_floating_point() else meta)
        return _h_mul("mul", torch.mul, (a, r), {})
    sa = _scalar_of(a)
    if sa is not None and isinstance(b, STensor):  # scalar / tensor
        r = _pow_tensor(b, Fraction(-1), meta)
        return _scaled(r, sa, meta)
    raise HarnessError("div operands")


def _h_add(name: str, func: Any, args: Tuple[Any, ...], kw: Dict[str, Any]) -> Any:
    a, b = _binary_operands(args)
    sign = -1 if name in ("sub", "rsub") else 1
    if name == "rsub":
        a, b = b, a
    alpha = kw.get("alpha", 1)
    out = kw.get("out")
    if out is not None:
        raise HarnessError("out= not modelled")
    meta = _run_meta(torch.add if sign == 1 else torch.sub, (a, b), {"alpha": alpha} if alpha != 1 else {})
    if alpha != 1:
        b = dispatch("mul", torch.mul, (b, alpha), {})
    if not isinstance(a, STensor) or not isinstance(b, STensor):
        t, s = (a, b) if isinstance(a, STensor) else (b, a)
        sv = _scalar_of(s)
        if sv is None:
            raise HarnessError("add operands")
        return opaque("add_scalar" if (sign == 1 or t is a) else "rsub_scalar", [t, sv if sign == 1 else -sv if t is a else sv], {}, t.shape, meta)
    shape = broadcast_shapes(a.shape, b.shape)
    same = len(a.shape) == len(b.shape) and all(_syn_eq(x, y) for x, y in zip(a.shape, b.shape))
    if same and a.const is None and b.const is None:
        node = None
        if Mode.grad and (a.requires_grad or b.requires_grad):
            node = Node([a, b], lambda g, _s=sign: [g, g if _s == 1 else lc_scale(g, z3.RealVal(-1))], "add")
        return STensor(lc_add(a.lc, b.lc, sign), shape, meta, node=node)
    bb = b if sign == 1 else dispatch("neg", torch.neg, (b,), {})
    return opaque("add_bcast", [a, bb], {}, shape, meta)


def _syn_eq(x: Any, y: Any) -> bool:
    r = dim_eq(x, y)
    return r is True


def _h_neg(name: str, func: Any, args: Tuple[Any, ...], kw: Dict[str, Any]) -> Any:
    x = args[0]
    return _scaled(x, _sreal(-1), x.meta)


def _h_linear(name: str, func: Any, args: Tuple[Any, ...], kw: Dict[str, Any]) -> Any:
    x, w = args[0], args[1]
    b = args[2] if len(args) > 2 else kw.get("bias")
    meta = _run_meta(F.linear, (x, w, b), {})
    if not bool(dim_eq(x.shape[-1], w.shape[1])):
        raise RuntimeError("mat1 and mat2 shapes cannot be multiplied")
    return opaque("linear", [x, w, b], {}, x.shape[:-1] + (w.shape[0],), meta)


def _h_matmul(name: str, func: Any, args: Tuple[Any, ...], kw: Dict[str, Any]) -> Any:
    a, b = args[0], args[1]
    meta = _run_meta(torch.matmul, (a, b), {})
    if len(a.shape) < 2 or len(b.shape) < 2:
        raise HarnessError("matmul with 1-D operands not modelled")
    if not bool(dim_eq(a.shape[-1], b.shape[-2])):
        raise RuntimeError("matmul inner dimensions differ")
    batch = broadcast_shapes(a.shape[:-2], b.shape[:-2])
    return opaque("matmul", [a, b], {}, batch + (a.shape[-2], b.shape[-1]), meta)


def _h_conv1d(name: str, func: Any, args: Tuple[Any, ...], kw: Dict[str, Any]) -> Any:
    names = ["input", "weight", "bias", "stride", "padding", "dilation", "groups"]
    d: Dict[str, Any] = {"bias": None, "stride": 1, "padding": 0, "dilation": 1, "groups": 1}
    d.update(dict(zip(names, args)))
    d.update(kw)
    x, w, b = d["input"], d["weight"], d["bias"]
    st, pd, dl, gr = (_untuple(d[k]) for k in ("stride", "padding", "dilation", "groups"))
    meta = _run_meta(F.conv1d, (x, w, b, st, pd, dl, gr), {})
    L, k = x.shape[-1], w.shape[2]
    lout = (L + 2 * pd - dl * (k - 1) - 1) // st + 1
    return opaque("conv1d", [x, w, b], {"stride": st, "padding": pd, "dilation": dl, "groups": gr},
                  x.shape[:-2] + (w.shape[0], lout), meta)


def _untuple(v: Any) -> Any:
    if isinstance(v, (tuple, list)) and len(v) == 1:
        return v[0]
    return v


def _h_softmax(name: str, func: Any, args: Tuple[Any, ...], kw: Dict[str, Any]) -> Any:
    x = args[0]
    dim = args[1] if len(args) > 1 else kw.get("dim")
    dtype = args[3] if len(args) > 3 else kw.get("dtype")
    kw2 = {k: v for k, v in kw.items() if k in ("_stacklevel",)}
    meta = _run_meta(F.softmax, (x,), {"dim": dim, "dtype": dtype})
    nd = len(x.shape)
    d = dim.concrete() if isinstance(dim, SInt) else dim
    return opaque("softmax", [x], {"dim": d % nd if nd else 0, "dtype": dtype}, x.shape, meta)


def _h_dropout(name: str, func: Any, args: Tuple[Any, ...], kw: Dict[str, Any]) -> Any:
    names = ["input", "p", "training", "inplace"]
    d: Dict[str, Any] = {"p": 0.5, "training": True, "inplace": False}
    d.update(dict(zip(names, args)))
    d.update(kw)
    x = d["input"]
    if d["inplace"]:
        raise HarnessError("inplace dropout")
    meta = _run_meta(F.dropout, (x, d["p"], d["training"], False), {})
    if not d["training"]:
        return x  # F.dropout in eval mode returns its input
    if isinstance(x, STensor) and x.const is None and len(x.lc) == 1 and not z3.is_true(z3.simplify(x.lc[0][0] == 1)) \
            and not z3.is_true(z3.simplify(x.lc[0][0] == 0)):
        # with the mask of this call dropout is a linear map: dropout(c * u) = c * dropout(u).  A library that scales its input before the
        # dropout (one fused custom-gradient step) then unifies with one that scales the result.  (value and gradient: c * D(x / c))
        c0 = SReal(x.lc[0][0])
        u = _scaled(x, c0, x.meta, inverse=True)
        du = opaque("dropout", [u], {"p": d["p"], "rng": "same-generator-state"}, x.shape, meta)
        return _scaled(du, c0, meta)
    return opaque("dropout", [x], {"p": d["p"], "rng": "same-generator-state"}, x.shape, meta)


def _h_layer_norm(name: str, func: Any, args: Tuple[Any, ...], kw: Dict[str, Any]) -> Any:
    names = ["input", "normalized_shape", "weight", "bias", "eps"]
    d: Dict[str, Any] = {"weight": None, "bias": None, "eps": 1e-5}
    d.update(dict(zip(names, args)))
    d.update(kw)
    x = d["input"]
    ns = tuple(d["normalized_shape"])
    meta = _run_meta(F.layer_norm, (x, ns, d["weight"], d["bias"], d["eps"]), {})
    for a, b in zip(x.shape[len(x.shape) - len(ns):], ns):
        if isinstance(a, SInt) and isinstance(b, int) and a.sample == b:
            continue  # a concrete size baked into a captured graph: matched to the dimension symbol by its sample value
        if not bool(dim_eq(a, b)):
            raise RuntimeError("normalized_shape mismatch")
    return opaque("layer_norm", [x, d["weight"], d["bias"]], {"normalized_shape": tuple(str(v.e) if isinstance(v, SInt) else v for v in ns),
                                                             "eps": d["eps"]}, x.shape, meta)


def _h_embedding(name: str, func: Any, args: Tuple[Any, ...], kw: Dict[str, Any]) -> Any:
    names = ["input", "weight", "padding_idx", "max_norm", "norm_type", "scale_grad_by_freq", "sparse"]
    d: Dict[str, Any] = {"padding_idx": None, "max_norm": None, "norm_type": 2.0, "scale_grad_by_freq": False, "sparse": False}
    d.update(dict(zip(names, args)))
    d.update(kw)
    idx, w = d["input"], d["weight"]
    meta = _run_meta(F.embedding, (idx, w), {})
    st = {k: d[k] for k in ("padding_idx", "max_norm", "norm_type", "scale_grad_by_freq", "sparse")}
    if d["max_norm"] is not None and isinstance(w, STensor):
        w.version += 1  # F.embedding renormalises the rows of the table IT IS GIVEN in place (documented): a write to that tensor object
    return opaque("embedding", [idx, w], st, idx.shape + (w.shape[1],), meta, diff=[1])


def _h_sdpa(name: str, func: Any, args: Tuple[Any, ...], kw: Dict[str, Any]) -> Any:
    names = ["query", "key", "value", "attn_mask", "dropout_p", "is_causal", "scale"]
    d: Dict[str, Any] = {"attn_mask": None, "dropout_p": 0.0, "is_causal": False, "scale": None, "enable_gqa": False}
    d.update(dict(zip(names, args)))
    d.update(kw)
    q, k, v, mask = d["query"], d["key"], d["value"], d["attn_mask"]
    meta = _run_meta(F.scaled_dot_product_attention, (q, k, v), {"attn_mask": mask, "is_causal": d["is_causal"]})
    st = {"dropout_p": d["dropout_p"], "is_causal": d["is_causal"], "scale": d["scale"], "enable_gqa": d["enable_gqa"]}
    return opaque("sdpa", [q, k, v, mask], st, q.shape[:-1] + (v.shape[-1],), meta, diff=[0, 1, 2])


def _h_cross_entropy(name: str, func: Any, args: Tuple[Any, ...], kw: Dict[str, Any]) -> Any:
    names = ["input", "target", "weight", "size_average", "ignore_index", "reduce", "reduction", "label_smoothing"]
    d: Dict[str, Any] = {"weight": None, "size_average": None, "ignore_index": -100, "reduce": None,
                         "reduction": "mean", "label_smoothing": 0.0}
    d.update(dict(zip(names, args)))
    d.update(kw)
    x, t = d["input"], d["target"]
    red = d["reduction"]
    meta = _run_meta(F.cross_entropy, (x, t), {"reduction": red})
    st = {k: d[k] for k in ("weight", "size_average", "ignore_index", "reduce", "label_smoothing")}
    if red == "none":
        return opaque("cross_entropy_none", [x, t], st, x.shape[:-1], meta, diff=[0])
    s = opaque("cross_entropy_sum", [x, t], st, (), meta, diff=[0])
    if red == "sum":
        return s
    # documented contract of reduction='mean': divide by the number of non-ignored targets
    nv = getattr(t, "n_valid", None)
    if nv is None:
        nv = x.shape[0] if len(x.shape) == 2 else 1
    return _scaled(s, _sreal(nv), meta, inverse=True)


def _h_mse_loss(name: str, func: Any, args: Tuple[Any, ...], kw: Dict[str, Any]) -> Any:
    names = ["input", "target", "size_average", "reduce", "reduction"]
    d: Dict[str, Any] = {"size_average": None, "reduce": None, "reduction": "mean"}
    d.update(dict(zip(names, args)))
    d.update(kw)
    x, t = d["input"], d["target"]
    red = d["reduction"]
    meta = _run_meta(F.mse_loss, (x, t), {"reduction": red})
    st = {k: d[k] for k in ("size_average", "reduce")}
    if (isinstance(x, STensor) and isinstance(t, STensor) and x.meta.is_floating_point() and t.meta.is_floating_point()
            and st["size_average"] is None and st["reduce"] is None):
        # by its definition, through the engine's own ops (so that a library spelling (x - t).pow(2).sum() unifies with it and the
        # gradient 2 (x - t) g comes out of the tape, upstream gradient included)
        dlt = dispatch("sub", torch.sub, (x, t), {})
        sq = dispatch("pow", torch.pow, (dlt, 2), {})
        if red == "none":
            return sq
        tot = dispatch("sum", torch.sum, (sq,), {})
        if red == "sum":
            return STensor(tot.lc, (), meta, node=tot.node, const=tot.const)
        return _scaled(STensor(tot.lc, (), meta, node=tot.node, const=tot.const), _sreal(broadcast_shapes(x.shape, t.shape).numel()), meta, inverse=True)
    if red == "none":
        return opaque("mse_none", [x, t], st, broadcast_shapes(x.shape, t.shape), meta)
    s = opaque("mse_sum", [x, t], st, (), meta)
    if red == "sum":
        return s
    return _scaled(s, _sreal(broadcast_shapes(x.shape, t.shape).numel()), meta, inverse=True)


def _h_to(name: str, func: Any, args: Tuple[Any, ...], kw: Dict[str, Any]) -> Any:
    x = args[0]
    if name == "float":
        meta = x.meta.float()
    elif name == "double":
        meta = x.meta.double()
    elif name == "half":
        meta = x.meta.half()
    elif name == "bfloat16":
        meta = x.meta.bfloat16()
    else:
        a = [v for v in args[1:] if not isinstance(v, (torch.device, str))]
        k = {k: v for k, v in kw.items() if k != "device"}
        meta = x.meta.to(*a, **k) if (a or k) else x.meta
    if meta.dtype == x.dtype:
        return x
    # a dtype cast is the identity on real values (rounding to the dtype is outside the real-arithmetic model)
    node = Node([x], lambda g: [g], "cast") if (Mode.grad and x.requires_grad) else None
    return STensor(x.lc, x.shape, meta, node=node, const=x.const)


def _concrete_exponent(p: Any) -> Optional[Fraction]:
    if isinstance(p, bool):
        return None
    if isinstance(p, STensor):
        p = p.const
    if isinstance(p, torch.Tensor) and p.dim() == 0:
        p = p.item()
    if isinstance(p, SInt):
        p = p.concrete()
    if isinstance(p, SReal):
        p = p.const
    if isinstance(p, (int, float, Fraction)):
        try:
            return snap_exponent(p)
        except NotImplementedError:
            return None
    return None


def _pow_lc(u: LC, q: Fraction) -> LC:
    """canonical term for u ** q (u an operand in normal form, q a concrete rational)"""
    if q == 1:
        return u
    return LC(((ONE, Term("pow", (u, q))),))


def _pow_tensor(x: STensor, q: Fraction, meta: Any) -> STensor:
    """x ** q in canonical form: every spelling of a power (pow, square, sqrt, rsqrt, reciprocal, 1/x, nested powers where
    (x**a)**b = x**(a*b) holds over the reals) becomes the one term pow(u, q); d/dx = q * g * x**(q-1)."""
    if x.const is not None:
        from .scalar import sym_pow
        return STensor.scalar(sym_pow(x.const, q), meta.dtype if not isinstance(meta, OffPathMeta) else x.dtype)
    u, coef, qq = x.lc, ONE, q
    t = _single(u)
    if t is not None:
        c0, term = t
        c_is_one = z3.is_true(z3.simplify(c0 == 1))
        if not c_is_one and q.denominator == 1 and q != 0:
            # (c*v)**n = c**n * v**n for an integer n (c != 0 is a definedness obligation when n < 0)
            if q < 0 and not z3.is_true(z3.simplify(c0 != 0)):
                ctx().oblige(f"definedness: tensor divisor coefficient {z3.simplify(c0)} != 0", c0 != 0, kind="definedness")
            cn = z3.Product([c0] * int(abs(q))) if abs(q) > 1 else c0
            coef = z3.simplify(cn if q > 0 else 1 / cn)
            u, c_is_one = LC(((ONE, term),)), True
        if c_is_one and term.op == "pow":
            inner, a = term.args
            if isinstance(a, Fraction) and (a.denominator % 2 == 0 or (a.denominator == 1 and q.denominator == 1)):
                u, qq = inner, a * q
    out_lc = lc_scale(_pow_lc(u, qq), coef) if not z3.is_true(z3.simplify(coef == 1)) else _pow_lc(u, qq)
    node = None
    if Mode.grad and x.requires_grad and x.meta.is_floating_point():
        def vjp(g: LC, _x: STensor = x, _q: Fraction = q) -> List[Optional[LC]]:
            if _q == 1:
                return [g]
            # g * q * x**(q-1), in canonical form as well
            with no_grad():
                d = _pow_tensor(STensor(_x.lc, _x.shape, _x.meta), _q - 1, _x.meta)
            return [lc_scale(_mul_lc(g, d.lc, _x), _qz(_q))]

        node = Node([x], vjp, "pow")
    return STensor(out_lc, x.shape, meta, node=node)


def _qz(q: Fraction) -> Any:
    return z3.Q(q.numerator, q.denominator)


_POWER_SPELLINGS = {"square": Fraction(2), "sqrt": Fraction(1, 2), "rsqrt": Fraction(-1, 2), "reciprocal": Fraction(-1)}


def _h_pow(name: str, func: Any, args: Tuple[Any, ...], kw: Dict[str, Any]) -> Any:
    if name in _POWER_SPELLINGS:
        x, p = args[0], _POWER_SPELLINGS[name]
        meta = _run_meta(getattr(torch, name), (x,), {})
        return _pow_tensor(x, p, meta)
    x, p = args[0], args[1] if len(args) > 1 else kw.get("exponent")
    meta = _run_meta(torch.pow, (x, p), {})
    q = _concrete_exponent(p)
    if isinstance(x, STensor) and q is not None:
        return _pow_tensor(x, q, meta)
    return opaque("pow", [x, p], {}, x.shape if isinstance(x, STensor) else p.shape, meta)


def _h_reduce(name: str, func: Any, args: Tuple[Any, ...], kw: Dict[str, Any]) -> Any:
    x = args[0]
    dims = args[1] if len(args) > 1 else kw.get("dim", None)
    keepdim = args[2] if len(args) > 2 else kw.get("keepdim", False)
    k2 = {}
    if dims is not None:
        k2["dim"] = dims
    if keepdim:
        k2["keepdim"] = True
    meta = _run_meta(getattr(torch, name), (x,), k2)
    nd = len(x.shape)
    if dims is None:
        shape: Tuple[Any, ...] = tuple(1 for _ in x.shape) if keepdim else ()
        dn: Any = None
    else:
        dl = [dims] if isinstance(dims, int) else list(dims)
        dn = tuple(sorted(d % nd for d in dl))
        shape = tuple((1 if i in dn else s) for i, s in enumerate(x.shape) if keepdim or i not in dn)
    if name == "mean" and x.meta.is_floating_point():
        # mean = sum / count: one canonical spelling for x.mean(d), x.sum(d) / n, ...
        count: Any = 1
        for i, sz in enumerate(x.shape):
            if dn is None or i in dn:
                count = count * sz
        total = opaque("sum", [x], {"dim": dn, "keepdim": bool(keepdim)}, shape, meta)
        return _scaled(total, _sreal(count), meta, inverse=True)
    return opaque(name, [x], {"dim": dn, "keepdim": bool(keepdim)}, shape, meta)


def _h_clone(name: str, func: Any, args: Tuple[Any, ...], kw: Dict[str, Any]) -> Any:
    x = args[0]
    node = Node([x], lambda g: [g], "clone") if (Mode.grad and x.requires_grad) else None
    t = STensor(x.lc, x.shape, x.meta, node=node, const=x.const)
    if name == "detach":
        t.node, t.requires_grad = None, False
    return t


def _h_shape_op(name: str, func: Any, args: Tuple[Any, ...], kw: Dict[str, Any]) -> Any:
    """reshape-like ops: opaque, shape from the meta tensor when concrete, else from explicit rule."""
    x = args[0]
    meta = _run_meta(getattr(torch.Tensor, name), args, kw)
    if name in ("flatten",):
        sd = args[1] if len(args) > 1 else kw.get("start_dim", 0)
        ed = args[2] if len(args) > 2 else kw.get("end_dim", -1)
        nd = len(x.shape)
        sd, ed = sd % nd, ed % nd
        shape = x.shape[:sd] + (SSize(x.shape[sd:ed + 1]).numel(),) + x.shape[ed + 1:]
    elif name in ("transpose",):
        i, j = args[1] % len(x.shape), args[2] % len(x.shape)
        l = list(x.shape)
        l[i], l[j] = l[j], l[i]
        shape = tuple(l)
    elif name == "t":
        shape = tuple(reversed(x.shape))
    elif name == "permute":
        p = args[1:] if not isinstance(args[1], (tuple, list)) else args[1]
        shape = tuple(x.shape[i] for i in p)
    elif name == "unsqueeze":
        i = args[1] % (len(x.shape) + 1)
        shape = x.shape[:i] + (1,) + x.shape[i:]
    elif name == "squeeze":
        if len(args) < 2:
            raise HarnessError("squeeze without dim")
        i = args[1] % len(x.shape)
        d = x.shape[i]
        one = (d == 1) if isinstance(d, int) else bool(dim_eq(d, 1))  # symbolic size: decided by the path condition (forks)
        shape = (x.shape[:i] + x.shape[i + 1:]) if one else x.shape
    elif name in ("reshape", "view"):
        tgt = args[1:] if not isinstance(args[1], (tuple, list, SSize)) else tuple(args[1])
        if any(isinstance(v, int) and v == -1 for v in tgt):
            known: Any = 1
            for v in tgt:
                if not (isinstance(v, int) and v == -1):
                    known = known * v
            tgt = tuple((x.shape.numel() // known) if (isinstance(v, int) and v == -1) else v for v in tgt)
        shape = tuple(tgt)
    elif name == "contiguous":
        return x
    else:
        raise HarnessError(f"shape op {name}")
    st = {"args": tuple(str(a.e) if isinstance(a, SInt) else a for a in args[1:])}
    return opaque(name, [x], st, shape, meta)


def _h_getitem(name: str, func: Any, args: Tuple[Any, ...], kw: Dict[str, Any]) -> Any:
    x, idx = args
    meta = x.meta[_meta_args(idx)]
    if x.const is not None:
        return x
    shape = _index_shape(x.shape, idx)
    return opaque("getitem", [x], {"idx": repr(idx)}, shape, meta)


def _index_shape(shape: SSize, idx: Any) -> Tuple[Any, ...]:
    if not isinstance(idx, tuple):
        idx = (idx,)
    out: List[Any] = []
    dims = list(shape)
    n_explicit = sum(1 for i in idx if i is not Ellipsis and i is not None)
    pos = 0
    for i in idx:
        if i is Ellipsis:
            k = len(dims) - n_explicit
            out += dims[pos:pos + k]
            pos += k
        elif i is None:
            out.append(1)
        elif isinstance(i, int):
            pos += 1
        elif isinstance(i, slice):
            d = dims[pos]
            if i == slice(None):
                out.append(d)
            else:
                start, stop, step = i.start or 0, i.stop, i.step or 1
                if step != 1:
                    raise HarnessError("strided slice")
                if stop is None:
                    out.append(d - start if start >= 0 else -start)
                elif stop < 0:
                    out.append(d + stop - start)
                else:
                    out.append(stop - start)
            pos += 1
        else:
            raise HarnessError(f"index {i!r}")
    out += dims[pos:]
    return tuple(out)


def _h_pad(name: str, func: Any, args: Tuple[Any, ...], kw: Dict[str, Any]) -> Any:
    x, pad = args[0], args[1]
    mode = args[2] if len(args) > 2 else kw.get("mode", "constant")
    value = args[3] if len(args) > 3 else kw.get("value", None)
    meta = _run_meta(F.pad, (x, tuple(pad)), {"mode": mode})
    shape = list(x.shape)
    for i in range(len(pad) // 2):
        shape[-1 - i] = shape[-1 - i] + pad[2 * i] + pad[2 * i + 1]
    return opaque("pad", [x], {"pad": tuple(str(p.e) if isinstance(p, SInt) else p for p in pad), "mode": mode, "value": value}, tuple(shape), meta)


def _h_stat(name: str, func: Any, args: Tuple[Any, ...], kw: Dict[str, Any]) -> Any:
    """std / max / min / abs-type statistics: opaque (data dependent)."""
    x = args[0]
    meta = _run_meta(getattr(torch.Tensor, name), args, kw)
    if not isinstance(meta, torch.Tensor):
        raise HarnessError(name)
    return opaque(name, [x], {"args": repr(args[1:]), **{k: repr(v) for k, v in kw.items()}}, tuple(meta.shape) if not meta.shape else _same_or_meta(x, meta), meta)


def _same_or_meta(x: STensor, meta: torch.Tensor) -> Tuple[Any, ...]:
    if tuple(meta.shape) == x.shape.sample():
        return tuple(x.shape)
    return tuple(meta.shape)


def _h_item(name: str, func: Any, args: Tuple[Any, ...], kw: Dict[str, Any]) -> Any:
    x = args[0]
    if x.const is not None:
        return x.const
    return _item_of(x.lc, len(x.shape) == 0 or all(isinstance(d, int) and d == 1 for d in x.shape))


def _item_of(lc: LC, scalar_shape: bool) -> SReal:
    """The number read out of a one-element tensor: linear in the terms, |.| commutes with the read-out, and the same term
    always reads the same (one data symbol per term, hash-consed per context)."""
    c = ctx()
    cache = c.__dict__.setdefault("_item_cache", {})
    total: Any = None
    for coef, term in lc:
        if term.op == "abs" and scalar_shape and len(term.args) >= 1 and isinstance(term.args[0], LC):
            inner = _item_of(term.args[0], scalar_shape)
            val = z3.If(inner.z >= 0, inner.z, -inner.z)
        else:
            k = term.key
            if k not in cache:
                v = c.fresh("data")
                c.data_vars.append((v, LC(((ONE, term),))))
                cache[k] = v
            val = cache[k]
        part = val if z3.is_true(z3.simplify(coef == 1)) else coef * val
        total = part if total is None else total + part
    return SReal(total if total is not None else z3.RealVal(0))


def _h_silu(name: str, func: Any, args: Tuple[Any, ...], kw: Dict[str, Any]) -> Any:
    """F.silu by its definition x * sigmoid(x) (so that a library spelling x * sigmoid(x) unifies with it)."""
    x = args[0]
    if kw.get("inplace") or (len(args) > 1 and args[1]):
        raise HarnessError("inplace silu")
    return dispatch("mul", torch.mul, (x, dispatch("sigmoid", torch.sigmoid, (x,), {})), {})


HANDLERS: Dict[str, Callable[..., Any]] = {
    "silu": _h_silu,
    "mul": _h_mul, "true_divide": _h_div, "rtrue_divide": _h_div, "add": _h_add, "sub": _h_add, "rsub": _h_add,
    "neg": _h_neg, "linear": _h_linear, "matmul": _h_matmul, "conv1d": _h_conv1d, "softmax": _h_softmax,
    "dropout": _h_dropout, "layer_norm": _h_layer_norm, "embedding": _h_embedding, "sdpa": _h_sdpa,
    "cross_entropy": _h_cross_entropy, "mse_loss": _h_mse_loss, "to": _h_to, "float": _h_to, "double": _h_to,
    "half": _h_to, "bfloat16": _h_to, "type": _h_to, "pow": _h_pow, "square": _h_pow, "sqrt": _h_pow, "rsqrt": _h_pow, "reciprocal": _h_pow, "mean": _h_reduce, "sum": _h_reduce,
    "clone": _h_clone, "detach": _h_clone, "flatten": _h_shape_op, "transpose": _h_shape_op, "t": _h_shape_op,
    "permute": _h_shape_op, "unsqueeze": _h_shape_op, "squeeze": _h_shape_op, "reshape": _h_shape_op, "view": _h_shape_op,
    "contiguous": _h_shape_op, "getitem": _h_getitem, "pad": _h_pad, "std": _h_stat, "var": _h_stat,
    "max": _h_stat, "min": _h_stat, "amax": _h_stat, "amin": _h_stat, "norm": _h_stat, "item": _h_item,
}


# =============================================================================== einops shim
def _parse_side(side: str) -> List[Any]:
    out: List[Any] = []
    i, toks = 0, side.replace("(", " ( ").replace(")", " ) ").split()
    cur: Optional[List[str]] = None
    for t in toks:
        if t == "(":
            cur = []
        elif t == ")":
            out.append(cur)
            cur = None
        elif cur is not None:
            cur.append(t)
        else:
            out.append(t)
    return out


class EinopsShim:
    """Stands in for `einops` inside unit_scaling._modules: rearrange on symbolic tensors is an opaque reshaping
    stub whose symbolic output shape is derived from the pattern (validated against real einops on the meta tensor)."""

    def __getattr__(self, name: str) -> Any:
        import einops
        return getattr(einops, name)

    def rearrange(self, t: Any, pattern: str, **axes: Any) -> Any:
        import einops
        if not isinstance(t, STensor):
            return einops.rearrange(t, pattern, **axes)
        meta = einops.rearrange(t.meta, pattern, **{k: _meta_args(v) for k, v in axes.items()})
        lhs, rhs = (_parse_side(s) for s in pattern.split("->"))
        if len(lhs) != len(t.shape):
            raise HarnessError(f"einops pattern {pattern} vs rank {len(t.shape)}")
        size: Dict[str, Any] = dict(axes)
        for item, d in zip(lhs, t.shape):
            if isinstance(item, str):
                size[item] = d
            else:
                unknown = [n for n in item if n not in size]
                known: Any = 1
                for n in item:
                    if n in size:
                        known = known * size[n]
                if len(unknown) == 1:
                    size[unknown[0]] = d // known
                elif unknown:
                    raise HarnessError("einops: more than one unknown axis in a group")
        shape = []
        for item in rhs:
            if isinstance(item, str):
                shape.append(size[item])
            else:
                v: Any = 1
                for n in item:
                    v = v * size[n]
                shape.append(v)
        st = {"pattern": pattern, **{k: (str(v.e) if isinstance(v, SInt) else v) for k, v in axes.items()}}
        return opaque("rearrange", [t], st, tuple(shape), meta)


EINOPS = EinopsShim()


# =============================================================================== builtin shims
class FShim:
    """Stands in for `torch.nn.functional` inside unit_scaling modules during a session: C-implemented functions
    reject symbolic ints/floats in their argument parser before __torch_function__ is consulted, so those are
    routed to the engine's handlers directly when a symbolic argument is present."""

    def __getattr__(self, name: str) -> Any:
        return getattr(F, name)

    @staticmethod
    def _sym(args: Any, kwargs: Any) -> bool:
        return any(isinstance(a, (STensor, SReal, SInt)) for a in list(args) + list(kwargs.values()))

    def conv1d(self, *args: Any, **kwargs: Any) -> Any:
        return dispatch("conv1d", F.conv1d, args, kwargs) if self._sym(args, kwargs) else F.conv1d(*args, **kwargs)

    def scaled_dot_product_attention(self, *args: Any, **kwargs: Any) -> Any:
        if self._sym(args, kwargs):
            return dispatch("sdpa", F.scaled_dot_product_attention, args, kwargs)
        return F.scaled_dot_product_attention(*args, **kwargs)

    def linear(self, *args: Any, **kwargs: Any) -> Any:
        return dispatch("linear", F.linear, args, kwargs) if self._sym(args, kwargs) else F.linear(*args, **kwargs)


TF = FShim()


class _TensorLikeMeta(type):
    def __instancecheck__(cls, obj: Any) -> bool:
        return isinstance(obj, (torch.Tensor, STensor))


class TensorLike(metaclass=_TensorLikeMeta):
    """stands in for the name `Tensor` inside library modules: isinstance(x, Tensor) accepts symbolic tensors, and it is
    still a type (usable in typing expressions evaluated at run time)"""


# =============================================================================== session (interception points)
class FakeCtx:
    def __init__(self) -> None:
        self.saved_tensors: Tuple[Any, ...] = ()
        self.needs_input_grad: Tuple[bool, ...] = ()
        self.materialize_grads = True

    def save_for_backward(self, *ts: Any) -> None:
        self.saved_tensors = tuple(ts)

    def mark_non_differentiable(self, *a: Any) -> None:
        pass

    def set_materialize_grads(self, v: bool) -> None:
        self.materialize_grads = bool(v)


def _contains_st(x: Any) -> bool:
    if isinstance(x, STensor):
        return True
    if isinstance(x, (tuple, list)):
        return any(_contains_st(v) for v in x)
    return False


ENGINE_S_STUBS = [
    "__torch_function__ on STensor and on symbolic scalars (SInt/SReal): every torch call with a symbolic operand is routed to vf/sym/tensor.py",
    "canonical forms: pow/square/sqrt/rsqrt/reciprocal/1/x -> pow(u, q); a / b -> a * b**-1; commutative products, u*u -> u**2; mean -> sum / count; "
    "F.silu(z) -> z*sigmoid(z); read-outs (.item(), float(t), int(t)) -> one data symbol per term, linear, |.| commutes",
    "torch.autograd.Function.apply -> the class's own forward/backward on symbolic tensors (mini-autograd tape)",
    "torch.tensor / torch.broadcast_shapes / torch.is_tensor wrappers",
    "module globals of unit_scaling.* during a session: F -> call-routing shim (functional, _modules), einops -> shape-rule shim (_modules), `math` and names "
    "imported from it -> symbolic stand-ins (any module), int / float -> callable type shims (functional, core.functional, _modules, optim, scale, utils), "
    "pow / prod (constraints), Tensor -> isinstance-compatible TensorLike (optim, utils, _track_scales), isclose (_track_scales)",
]
ENGINE_S_ASSUMPTIONS = [
    "python floats are reals; a source constant within 2 ulp of the square root of a rational with denominator <= 4096 (2**0.5, 8**-0.5, ...) is read as that "
    "root; other constants are the exact rational value of the double and equalities may be discharged to 1e-9 relative",
]


class Session:
    """Installs the interception points of DESIGN.md §2.4 for the duration of a symbolic run."""

    def __enter__(self) -> "Session":
        import unit_scaling.constraints as uc
        import unit_scaling.core.functional as ucf
        import unit_scaling.functional as uf
        import unit_scaling.optim as uo
        from .scalar import MathShim, sym_log, sym_pow

        self.saved: List[Tuple[Any, str, Any, bool]] = []

        def patch(obj: Any, attr: str, val: Any) -> None:
            d = getattr(obj, "__dict__", {})
            had = attr in d
            self.saved.append((obj, attr, d[attr] if had else None, had))  # raw entry (classmethod objects!)
            setattr(obj, attr, val)

        orig_apply = torch.autograd.Function.__dict__["apply"]
        orig_apply_fn = torch.autograd.Function.apply

        def apply(cls: Any, *args: Any, **kwargs: Any) -> Any:
            if Mode.active and any(isinstance(a, torch.Tensor) and a.dim() > 0 for a in args):
                args = tuple(lift(a) for a in args)  # module parameters met by an instrumenting interpreter
            if not _contains_st(args):
                return orig_apply.__get__(None, cls)(*args, **kwargs)
            fctx = FakeCtx()
            fctx.needs_input_grad = tuple(isinstance(a, STensor) and a.requires_grad for a in args)
            with no_grad():
                out = cls.forward(fctx, *args, **kwargs)
            parents = [a for a in args if isinstance(a, STensor)]
            pidx = [i for i, a in enumerate(args) if isinstance(a, STensor)]
            if isinstance(out, (tuple, list)) and any(isinstance(o, STensor) for o in out):
                # several outputs, one backward: the gradients of the outputs travel to a hub tensor tagged by output index
                # (injection terms), the hub's vjp separates them again and calls the class's own backward once
                outs_t = list(out)
                if not (Mode.grad and any(p.requires_grad for p in parents)):
                    return type(out)(outs_t)

                def hub_vjp(g: LC, _cls: Any = cls, _fctx: FakeCtx = fctx, _outs: List[Any] = outs_t) -> List[Optional[LC]]:
                    per: List[Optional[LC]] = [None] * len(_outs)
                    for c, t in g:
                        k = int(t.op[4:-1])
                        inner = lc_scale(t.args[0], c)
                        per[k] = inner if per[k] is None else lc_add(per[k], inner)
                    gts: List[Any] = []
                    for k, o in enumerate(_outs):
                        if not isinstance(o, STensor):
                            gts.append(None)
                        elif per[k] is None:
                            gts.append(STensor(LC(()), o.shape, o.meta) if _fctx.materialize_grads else None)
                        else:
                            gts.append(STensor(per[k], o.shape, o.meta))
                    res = _cls.backward(_fctx, *gts)
                    if not isinstance(res, tuple):
                        res = (res,)
                    back: List[Optional[LC]] = []
                    for i in pidx:
                        r = res[i] if i < len(res) else None
                        back.append(r.lc if isinstance(r, STensor) else None)
                    return back

                first = next(o for o in outs_t if isinstance(o, STensor))
                hub = STensor(LC(()), (), torch.empty((), dtype=first.meta.dtype, device="meta"), node=Node(parents, hub_vjp, cls.__name__))
                hub.requires_grad = True
                wrapped: List[Any] = []
                for k, o in enumerate(outs_t):
                    if not isinstance(o, STensor) or not o.meta.is_floating_point():
                        wrapped.append(o)
                        continue
                    nk = Node([hub], lambda g, _k=k: [LC(tuple((c, Term(f"inj[{_k}]", (LC(((ONE, t),)),))) for c, t in g))], f"{cls.__name__}.out{k}")
                    w = STensor(o.lc, o.shape, o.meta, node=nk, const=o.const)
                    w.requires_grad = True
                    wrapped.append(w)
                return type(out)(wrapped)
            if not isinstance(out, STensor):
                return out
            node = None
            if Mode.grad and any(p.requires_grad for p in parents):
                def vjp(g: LC, _cls: Any = cls, _fctx: FakeCtx = fctx, _out: STensor = out) -> List[Optional[LC]]:
                    gt = STensor(g, _out.shape, _out.meta)
                    res = _cls.backward(_fctx, gt)
                    if not isinstance(res, tuple):
                        res = (res,)
                    outs: List[Optional[LC]] = []
                    for i in pidx:
                        r = res[i] if i < len(res) else None
                        outs.append(r.lc if isinstance(r, STensor) else None)
                    return outs

                node = Node(parents, vjp, cls.__name__)
            return STensor(out.lc, out.shape, out.meta, node=node, const=out.const)

        patch(torch.autograd.Function, "apply", classmethod(apply))

        orig_tensor = torch.tensor

        def tensor(data: Any, *a: Any, **k: Any) -> Any:
            if isinstance(data, (SReal, SInt)):
                return STensor.scalar(data, k.get("dtype") or torch.float32)
            if isinstance(data, STensor):
                return data
            if isinstance(data, float) and Mode.active:
                # exact real value: rounding of a Python float to the tensor dtype is outside the real model
                return STensor.scalar(data, k.get("dtype") or torch.float32)
            return orig_tensor(data, *a, **k)

        patch(torch, "tensor", tensor)
        orig_bs = torch.broadcast_shapes

        def bshapes(*shapes: Any) -> Any:
            if any(isinstance(s, SSize) or (isinstance(s, (tuple, list)) and any(isinstance(d, SInt) for d in s)) for s in shapes):
                return SSize(broadcast_shapes(*[tuple(s) if not isinstance(s, int) else (s,) for s in shapes]))
            return orig_bs(*shapes)

        patch(torch, "broadcast_shapes", bshapes)
        orig_is_tensor = torch.is_tensor
        patch(torch, "is_tensor", lambda obj: isinstance(obj, STensor) or orig_is_tensor(obj))
        import unit_scaling._modules as um
        patch(um, "einops", EINOPS)
        patch(um, "F", TF)
        patch(uf, "F", TF)
        patch(uf, "log", sym_log)
        patch(uf, "prod", MathShim.prod)
        patch(ucf, "math", MathShim())
        patch(uc, "pow", sym_pow)
        patch(uc, "prod", MathShim.prod)

        def _sym_float(x: Any = 0.0) -> Any:
            if isinstance(x, STensor):
                if x.const is None:
                    return dispatch("item", None, (x,), {})
                return x.const
            if isinstance(x, (SReal, SInt)):
                return _sreal(x)
            return float(x)

        def _sym_int(x: Any = 0, *a: Any) -> Any:
            if isinstance(x, STensor):  # a number read out of tensor data: a fresh *data* symbol (or the constant)
                if x.const is None:
                    return dispatch("item", None, (x,), {})
                x = x.const
            if isinstance(x, SInt):
                return x
            if isinstance(x, SReal):
                if x.const is not None:
                    return int(x.const)
                raise HarnessError("int() of a symbolic real")
            return int(x, *a)

        class _ShimMeta(type):
            """the builtin's name inside library modules: converts like the builtin, symbolic values included, and still works
            as the second argument of isinstance()"""
            def __instancecheck__(cls, obj: Any) -> bool:
                return isinstance(obj, cls._accept)  # type: ignore[attr-defined]

            def __subclasscheck__(cls, sub: Any) -> bool:
                return issubclass(sub, cls._accept)  # type: ignore[attr-defined]

            def __call__(cls, *a: Any, **k: Any) -> Any:
                return cls._convert(*a, **k)  # type: ignore[attr-defined]

            def __eq__(cls, other: Any) -> bool:
                return other is cls or other is cls._builtin  # type: ignore[attr-defined]

            def __hash__(cls) -> int:
                return hash(cls._builtin)  # type: ignore[attr-defined]

        class sym_float(metaclass=_ShimMeta):
            _accept, _convert, _builtin = (float, SReal), staticmethod(_sym_float), float

        class sym_int(metaclass=_ShimMeta):
            _accept, _convert, _builtin = (int, SInt), staticmethod(_sym_int), int

        import unit_scaling.scale as usc
        for mod in (uf, ucf, um, uo, usc):
            if "int" not in vars(mod):
                patch(mod, "int", sym_int)
            if "float" not in vars(mod) and mod is not uo:
                patch(mod, "float", sym_float)

        # the same stand-ins wherever a (refactored) library module binds `math` or one of its functions under any name
        import math as _math
        import sys as _sys
        from .scalar import sym_exp, sym_isclose as _sic
        subst = {_math.log: sym_log, _math.exp: sym_exp, _math.pow: sym_pow, _math.sqrt: MathShim.sqrt, _math.prod: MathShim.prod,
                 _math.isclose: _sic}
        done = {(id(o), a) for o, a, _, _ in self.saved}
        from .scalar import NumpyShim
        try:
            import numpy as _numpy
        except Exception:  # numpy is a torch dependency; be safe anyway
            _numpy = None
        _NP_NAMES = ("isclose", "sqrt", "power", "prod", "log", "exp", "abs", "absolute", "square")
        for mname, mod in list(_sys.modules.items()):
            if not mname.startswith("unit_scaling") or ".tests" in mname or mod is None:
                continue
            for gname, val in list(vars(mod).items()):
                if (id(mod), gname) in done:
                    continue
                if val is _math:
                    patch(mod, gname, MathShim())
                elif callable(val) and getattr(val, "__module__", None) == "math" and val in subst:
                    patch(mod, gname, subst[val])
                elif val is _numpy:
                    patch(mod, gname, NumpyShim())
                elif _numpy is not None and callable(val) and any(val is getattr(_numpy, n, None) for n in _NP_NAMES):
                    patch(mod, gname, getattr(NumpyShim, next(n for n in _NP_NAMES if val is getattr(_numpy, n, None))))

        patch(uo, "float", sym_float)
        patch(uo, "Tensor", TensorLike)
        import unit_scaling.transforms._track_scales as uts
        import unit_scaling.utils as uut
        from .scalar import sym_isclose
        patch(uts, "Tensor", TensorLike)
        patch(uts, "isclose", sym_isclose)
        patch(uut, "Tensor", TensorLike)
        patch(uut, "float", sym_float)
        # library-global mutable state (module-level / class-level dict, list, set; lru_cache'd functions): every path of the
        # exploration must start from the same library state, and nothing symbolic may stay behind in a cache after the run
        self.state: List[Tuple[Any, Any]] = []
        self.caches: List[Any] = []
        for mname, mod in list(_sys.modules.items()):
            if not mname.startswith("unit_scaling") or ".tests" in mname or mod is None:
                continue
            holders = [mod] + [v for v in vars(mod).values() if isinstance(v, type) and getattr(v, "__module__", None) == mname]
            for holder in holders:
                for gname, val in list(vars(holder).items()):
                    if gname.startswith("__"):
                        continue
                    if type(val) in (dict, list, set) or type(val).__name__ in ("OrderedDict", "defaultdict"):
                        self.state.append((val, _copy.copy(val)))
                    elif callable(getattr(val, "cache_clear", None)) and callable(getattr(val, "cache_info", None)):
                        self.caches.append(val)
        LIFTED.clear()
        Mode.events = []
        Mode.active += 1
        return self

    def __exit__(self, *exc: Any) -> None:
        for live, snap in self.state:
            try:
                if isinstance(live, list):
                    live[:] = snap
                else:
                    live.clear()
                    live.update(snap)
            except Exception:
                pass
        for fn in self.caches:
            try:
                fn.cache_clear()
            except Exception:
                pass
        for obj, attr, old, had in reversed(self.saved):
            if had:
                setattr(obj, attr, old)
            else:
                try:
                    delattr(obj, attr)
                except AttributeError:
                    setattr(obj, attr, old)
        Mode.active -= 1
