"""Symbolic execution of the real FPFormat.quantise + an independent fixed-point oracle."""
from __future__ import annotations

import struct
from fractions import Fraction
from typing import Any, Dict, List, Optional, Tuple

import torch
import z3

from .btensor import FSORT, BTensor, Session

BITS = {torch.float32: 32, torch.float64: 64, torch.bfloat16: 16, torch.float16: 16}
F32 = z3.FPSort(8, 24)


def f32_bits(v: float) -> int:
    return struct.unpack("<I", struct.pack("<f", v))[0]


def bits_f32(b: int) -> float:
    return struct.unpack("<f", struct.pack("<I", b & 0xFFFFFFFF))[0]


class Encoded:
    """Result of running the real quantise on one symbolic element."""

    def __init__(self) -> None:
        self.xbits: Any = None  # BitVec of the input dtype's width
        self.x32: Any = None  # BitVec(32): the input converted to float32 (RNE), as bits
        self.out: Optional[BTensor] = None
        self.q32: Any = None  # BitVec(32): output converted (exactly, when representable) to float32 bits
        self.error: Optional[str] = None
        self.sess: Optional[Session] = None
        self.x: Optional[BTensor] = None
        self.in_dtype: Any = None
        self.shape: Tuple[int, ...] = ()

    @property
    def draws(self) -> List[Any]:
        return [d[0] for d in self.sess.draws] if self.sess else []


def run_quantise(fmt: Any, in_dtype: torch.dtype = torch.float32, shape: Tuple[int, ...] = (3,),
                 xname: str = "x", method: str = "quantise") -> Encoded:
    enc = Encoded()
    enc.in_dtype, enc.shape = in_dtype, shape
    w = BITS[in_dtype]
    xb = z3.BitVec(xname, w)
    xv = z3.fpBVToFP(xb, FSORT[in_dtype])
    x = BTensor(torch.empty(shape, dtype=in_dtype, device="meta"), xv)
    enc.xbits, enc.x = xb, x
    enc.x32 = xb if in_dtype == torch.float32 else z3.fpToIEEEBV(z3.fpToFP(z3.RNE(), xv, F32))
    with Session() as sess:
        enc.sess = sess
        try:
            out = getattr(fmt, method)(x)
        except Exception as e:  # the real torch error raised on the meta tensors
            enc.error = f"{type(e).__name__}: {e}"
            return enc
    enc.out = out
    if isinstance(out, BTensor) and out.val is not None and out.dtype in FSORT:
        enc.q32 = (z3.fpToIEEEBV(out.val) if out.dtype == torch.float32
                   else z3.fpToIEEEBV(z3.fpToFP(z3.RNE(), out.val, F32)))
    return enc


# --------------------------------------------------------------------------- oracle (SMT)
class Oracle:
    """Value set of the format, in exact fixed point (no floating point on this side).

    V(E,M) = {+-m 2^(e-M): emin<=e<=emax, 2^M<=m<2^(M+1)} u {+-m 2^(emin-M): 0<=m<2^M},
    emax = 2^(E-1)-1, emin = 1-2^(E-1).  |x| of a finite float32 is n(x) * 2^unit with
    unit = min(-149, emin-M).
    """

    def __init__(self, E: int, M: int):
        self.E, self.M = E, M
        self.emax = 2 ** (E - 1) - 1
        self.emin = 1 - 2 ** (E - 1)
        self.unit = min(-149, self.emin - M)
        self.W = self.emax + 1 - self.unit + 6
        self.nmax = (2 ** (M + 1) - 1) << (self.emax - M - self.unit)
        self.absmax = Fraction(2) ** self.emax * (2 - Fraction(1, 2 ** M))
        self.amax_bits = f32_bits(float(self.absmax)) if self.emax <= 127 else None
        self.nminnormal = 1 << (self.emin - self.unit)

    # -- fields
    @staticmethod
    def sign(xb: Any) -> Any:
        return z3.Extract(31, 31, xb)

    @staticmethod
    def e(xb: Any) -> Any:
        return z3.Extract(30, 23, xb)

    @staticmethod
    def m(xb: Any) -> Any:
        return z3.Extract(22, 0, xb)

    @staticmethod
    def mag(xb: Any) -> Any:
        return z3.Extract(30, 0, xb)

    def is_nan(self, xb: Any) -> Any:
        return z3.And(self.e(xb) == 255, self.m(xb) != 0)

    def is_inf(self, xb: Any) -> Any:
        return z3.And(self.e(xb) == 255, self.m(xb) == 0)

    def saturates(self, xb: Any) -> Any:
        return z3.UGE(self.mag(xb), z3.BitVecVal(self.amax_bits, 31))

    def n_raw(self, xb: Any) -> Any:
        e, m, W = self.e(xb), self.m(xb), self.W
        mant = z3.If(e == 0, z3.ZeroExt(W - 23, m), z3.ZeroExt(W - 23, m) | z3.BitVecVal(1 << 23, W))
        sh = z3.If(e == 0, z3.BitVecVal(0, W), z3.ZeroExt(W - 8, e) - 1) + (-149 - self.unit)
        return mant << sh

    def n_clamped(self, xb: Any) -> Any:
        return z3.If(self.saturates(xb), z3.BitVecVal(self.nmax, self.W), self.n_raw(xb))

    def ushift(self, xb: Any) -> Any:
        """log2 of the local spacing (in fixed-point units) of the format at clamp(x)."""
        W = self.W
        be = z3.ZeroExt(W - 8, self.e(xb))  # biased exponent; 0 stands for -127 (below every emin>=-127)
        hi, lo = self.emax + 127, self.emin + 127
        be = z3.If(z3.UGT(be, hi), z3.BitVecVal(hi, W), be)
        be = z3.If(z3.ULT(be, lo), z3.BitVecVal(lo, W), be)
        return be - (127 + self.M + self.unit)

    def spacing(self, xb: Any) -> Any:
        return z3.BitVecVal(1, self.W) << self.ushift(xb)

    def neighbours(self, xb: Any) -> Tuple[Any, Any, Any, Any]:
        nc = self.n_clamped(xb)
        u = self.spacing(xb)
        lo = nc & ~(u - 1)
        hi = z3.If(nc == lo, lo, lo + u)
        return nc, lo, hi, u

    def in_range(self, qb: Any) -> Any:
        return z3.ULE(self.mag(qb), z3.BitVecVal(self.amax_bits, 31))

    def representable(self, qb: Any) -> Any:
        n = self.n_raw(qb)
        u = self.spacing(qb)
        return z3.And(self.in_range(qb), (n & (u - 1)) == 0)

    def domain(self, xb: Any) -> Any:
        d = z3.Not(self.is_nan(xb))
        if self.E == 8:
            d = z3.And(d, z3.ULT(self.mag(xb), z3.BitVecVal(f32_bits(2.0 ** 126), 31)))
        return d

    def finite_domain(self, xb: Any) -> Any:
        return z3.And(self.domain(xb), self.e(xb) != 255)


# --------------------------------------------------------------------------- oracle (concrete, for replay)
def c_neighbours(E: int, M: int, x: float) -> Tuple[Fraction, Fraction, Fraction, Fraction]:
    """(clamped |x|, lo, hi, spacing) as exact rationals (independent of the SMT oracle's bit tricks)."""
    emax = 2 ** (E - 1) - 1
    emin = 1 - 2 ** (E - 1)
    absmax = Fraction(2) ** emax * (2 - Fraction(1, 2 ** M))
    if x != x:
        raise ValueError("nan")
    a = absmax if abs(x) == float("inf") else min(Fraction(abs(x)), absmax)
    # exponent of a
    if a == 0:
        e = emin
    else:
        e = a.numerator.bit_length() - a.denominator.bit_length()
        if Fraction(2) ** e > a:
            e -= 1
        e = max(e, emin)
    u = Fraction(2) ** (e - M)
    k = a / u
    lo = (k.numerator // k.denominator) * u
    hi = lo if lo == a else lo + u
    return a, lo, hi, u


def c_representable(E: int, M: int, v: float) -> bool:
    if v != v or abs(v) == float("inf"):
        return False
    a, lo, hi, u = c_neighbours(E, M, v)
    return Fraction(abs(v)) == a == lo


def real_quantise(fmt: Any, bits: int, dtype: torch.dtype = torch.float32, shape: Tuple[int, ...] = (3,),
                  draws: Optional[List[int]] = None) -> torch.Tensor:
    """Run the real code on a real tensor filled with the bit pattern (random source pinned)."""
    if dtype == torch.float32:
        x = torch.tensor([bits], dtype=torch.int64).to(torch.int32 if bits < 2 ** 31 else torch.int64)
        x = torch.tensor([bits - (1 << 32) if bits >= 2 ** 31 else bits], dtype=torch.int32).view(torch.float32)
    elif dtype == torch.float64:
        x = torch.tensor([bits - (1 << 64) if bits >= 2 ** 63 else bits], dtype=torch.int64).view(torch.float64)
    else:
        x = torch.tensor([bits - (1 << 16) if bits >= 2 ** 15 else bits], dtype=torch.int16).view(dtype)
    n = 1
    for s in shape:
        n *= s
    xt = x.expand(max(n, 1)).clone()[: n if shape else 1].reshape(shape)
    orig, orig_like = torch.randint, torch.randint_like
    it = iter(draws or [])
    drawn: List[int] = []

    def _pin(r: torch.Tensor) -> torch.Tensor:
        drawn.append(r.numel())
        try:
            v = next(it)
            r.fill_(v)
        except StopIteration:
            pass
        return r

    def fake_randint(*a: Any, **k: Any) -> torch.Tensor:
        return _pin(orig(*a, **k))

    def fake_randint_like(*a: Any, **k: Any) -> torch.Tensor:
        return _pin(orig_like(*a, **k))

    torch.randint, torch.randint_like = fake_randint, fake_randint_like
    try:
        x0 = xt.clone()
        q = fmt.quantise(xt)
        modified = not torch.equal(x0.view(torch.int32 if dtype == torch.float32 else torch.int64 if dtype == torch.float64 else torch.int16),
                                   xt.view(torch.int32 if dtype == torch.float32 else torch.int64 if dtype == torch.float64 else torch.int16))
    finally:
        torch.randint, torch.randint_like = orig, orig_like
    q._verif_modified = modified  # type: ignore[attr-defined]
    q._verif_drawn = list(drawn)  # type: ignore[attr-defined]
    return q
