"""Engine B: a 'bits tensor' that lets the real FPFormat.quantise run on a symbolic element.

A BTensor pairs
  * a real torch *meta* tensor (concrete shape/dtype; torch itself decides result shapes,
    dtype promotion and raises its own errors, e.g. view(dtype) on a 0-dim int64 tensor), with
  * one representative element as a z3 term (IEEE FP sort for float dtypes, BitVec for ints).
All handlers are element-wise; any op that is not element-wise/shape-preserving marks the
tensor `scrambled` (value unconstrained), which the checks then report through the shape or
value obligations.  The handlers are the SMT semantics of the torch ops (IEEE-754 RNE for
float arithmetic and conversions, two's complement for int32/int64).
"""
from __future__ import annotations

from typing import Any, Callable, Dict, List, Optional, Tuple

import torch
import z3

RNE = z3.RNE()

FSORT = {
    torch.float32: z3.FPSort(8, 24),
    torch.float64: z3.FPSort(11, 53),
    torch.bfloat16: z3.FPSort(8, 8),
    torch.float16: z3.FPSort(5, 11),
}
ISIZE = {torch.int32: 32, torch.int64: 64, torch.int16: 16, torch.int8: 8, torch.uint8: 8}


def _randint_args(args: Tuple[Any, ...], kwargs: Dict[str, Any]) -> Tuple[int, int, Tuple[int, ...]]:
    """torch.randint(low=0, high, size, *, ...) in every positional / keyword spelling"""
    a = list(args)
    if "size" in kwargs:
        size = kwargs["size"]
    else:
        size = a.pop()
    if "high" in kwargs:
        high = kwargs["high"]
        low = kwargs.get("low", a[0] if a else 0)
    elif len(a) >= 2:
        low, high = a[0], a[1]
    else:
        low, high = kwargs.get("low", 0), a[0]
    return int(low), int(high), tuple(size)


class Session:
    """State of one symbolic run: random draws, side constraints, structural events."""

    current: Optional["Session"] = None

    def __init__(self) -> None:
        self.draws: List[Tuple[z3.BitVecRef, int, Tuple[int, ...]]] = []  # (var, high, shape)
        self.constraints: List[z3.BoolRef] = []
        self.events: List[str] = []
        self.ops: List[str] = []
        self.fresh = 0

    def __enter__(self) -> "Session":
        Session.current = self
        self._orig_randint = torch.randint
        sess = self

        def randint(*args: Any, **kwargs: Any) -> Any:
            # torch.randint(low, high, size, ...) / torch.randint(high, size, ...)
            low, high, size = _randint_args(args, kwargs)
            dtype = kwargs.get("dtype") or torch.int64
            bits = ISIZE[dtype]
            v = z3.BitVec(f"r{len(sess.draws)}", bits)
            sess.constraints.append(z3.And(v >= low, v < high))  # signed compare; low>=0
            sess.draws.append((v, high - low, size))
            return BTensor(torch.empty(size, dtype=dtype, device="meta"), v)

        self._orig_randint_like = torch.randint_like

        def randint_like(inp: Any, *args: Any, **kwargs: Any) -> Any:
            if not isinstance(inp, BTensor):
                return sess._orig_randint_like(inp, *args, **kwargs)
            kw = {k: v for k, v in kwargs.items() if k in ("low", "high")}
            kw["size"] = tuple(inp.shape)
            return randint(*args, dtype=kwargs.get("dtype") or inp.dtype, **kw)

        torch.randint_like = randint_like
        torch.randint = randint  # takes no tensor argument: bypasses __torch_function__
        return self

    def __exit__(self, *exc: Any) -> None:
        torch.randint = self._orig_randint
        torch.randint_like = self._orig_randint_like
        Session.current = None

    def fresh_var(self, dtype: torch.dtype) -> Any:
        self.fresh += 1
        if dtype in FSORT:
            return z3.FP(f"scr{self.fresh}", FSORT[dtype])
        return z3.BitVec(f"scr{self.fresh}", ISIZE.get(dtype, 64))


def _const(v: Any, dtype: torch.dtype) -> Any:
    if dtype in FSORT:
        if isinstance(v, bool):
            v = float(v)
        return z3.simplify(z3.fpToFP(RNE, z3.FPVal(float(v), z3.Float64()), FSORT[dtype])) \
            if dtype != torch.float64 else z3.FPVal(float(v), z3.Float64())
    if dtype == torch.bool:
        return z3.BoolVal(bool(v))
    return z3.BitVecVal(int(v), ISIZE[dtype])


def _convert(val: Any, src: torch.dtype, dst: torch.dtype) -> Any:
    if src == dst:
        return val
    if src in FSORT and dst in FSORT:
        return z3.fpToFP(RNE, val, FSORT[dst])
    if src in ISIZE and dst in ISIZE:
        a, b = ISIZE[src], ISIZE[dst]
        if b > a:
            return z3.SignExt(b - a, val)
        return z3.Extract(b - 1, 0, val)
    if src in ISIZE and dst in FSORT:
        return z3.fpSignedToFP(RNE, val, FSORT[dst])
    if src in FSORT and dst in ISIZE:
        return z3.fpToSBV(z3.RTZ(), val, z3.BitVecSort(ISIZE[dst]))
    if src == torch.bool and dst in ISIZE:
        return z3.If(val, z3.BitVecVal(1, ISIZE[dst]), z3.BitVecVal(0, ISIZE[dst]))
    if src == torch.bool and dst in FSORT:
        return z3.If(val, _const(1.0, dst), _const(0.0, dst))
    raise NotImplementedError(f"convert {src}->{dst}")


def _real_scalar_value(t: torch.Tensor) -> Any:
    """A real tensor met during execution must be a broadcast scalar (mask, offset)."""
    if t.numel() != 1:
        raise NotImplementedError("non-scalar real tensor in bits pipeline")
    return t.item()


def _reinterpret(val: Any, src: torch.dtype, tgt: torch.dtype) -> Any:
    """the same storage element read with another dtype of the same size (what Tensor.view(dtype) does)"""
    if src == tgt or val is None:
        return val
    if src in FSORT and tgt in ISIZE:
        return z3.fpToIEEEBV(val)
    if src in ISIZE and tgt in FSORT:
        return z3.fpBVToFP(val, FSORT[tgt])
    return val


class BTensor:
    def __init__(self, meta: torch.Tensor, val: Any, scrambled: bool = False, root: Optional["BTensor"] = None):
        self.meta = meta
        self.root = root  # the tensor whose storage this one is a view of (view / detach / reshape...): in-place writes go through
        self._val = val
        self._version = 0
        self.scrambled = scrambled

    @property
    def val(self) -> Any:
        if self.root is None:
            return self._val
        return _reinterpret(self.root.val, self.root.dtype, self.dtype)

    @val.setter
    def val(self, v: Any) -> None:
        if self.root is None:
            self._val = v
        else:
            self.root.val = _reinterpret(v, self.dtype, self.root.dtype)

    @property
    def version(self) -> int:
        return self._version if self.root is None else self.root.version

    @version.setter
    def version(self, n: int) -> None:
        if self.root is None:
            self._version = n
        else:
            self.root.version = n

    # ---- attributes the library reads
    @property
    def shape(self) -> torch.Size:
        return self.meta.shape

    @property
    def dtype(self) -> torch.dtype:
        return self.meta.dtype

    @property
    def device(self) -> torch.device:
        return torch.device("cpu")

    def size(self, *a: Any) -> Any:
        return self.meta.size(*a)

    def dim(self) -> int:
        return self.meta.dim()

    def numel(self) -> int:
        return self.meta.numel()

    def is_floating_point(self) -> bool:
        return self.meta.is_floating_point()

    # ---- dispatch
    @classmethod
    def __torch_function__(cls, func: Any, types: Any, args: Any = (), kwargs: Any = None) -> Any:
        kwargs = kwargs or {}
        name = getattr(func, "__name__", str(func))
        return _dispatch(name, func, args, kwargs)

    def __getattr__(self, name: str) -> Any:
        if name.startswith("__"):
            raise AttributeError(name)
        tfn = getattr(torch.Tensor, name, None)
        if tfn is None:
            raise AttributeError(name)
        if name.endswith("_") and not name.endswith("__"):
            base = name[:-1]

            def inplace(*args: Any, **kwargs: Any) -> "BTensor":
                res = _dispatch(base, getattr(torch.Tensor, base), (self,) + args, kwargs)
                return self._assign(res)

            return inplace
        return lambda *a, **k: _dispatch(name, tfn, (self,) + a, k)

    def _assign(self, res: "BTensor") -> "BTensor":
        if res.meta.shape != self.meta.shape:
            raise RuntimeError("in-place result shape mismatch")
        self.val = _convert(res.val, res.dtype, self.dtype)
        self.scrambled = self.scrambled or res.scrambled
        self.version += 1
        return self

    # ---- operators
    def _bin(name: str, swap: bool = False) -> Callable[..., Any]:  # type: ignore[misc]
        def op(self: "BTensor", other: Any) -> Any:
            a, b = (other, self) if swap else (self, other)
            return _dispatch(name, getattr(torch, name), (a, b), {})

        return op

    __add__ = _bin("add")
    __radd__ = _bin("add", True)
    __sub__ = _bin("sub")
    __rsub__ = _bin("sub", True)
    __mul__ = _bin("mul")
    __rmul__ = _bin("mul", True)
    __truediv__ = _bin("true_divide")
    __rtruediv__ = _bin("true_divide", True)
    __floordiv__ = _bin("floor_divide")
    __and__ = _bin("bitwise_and")
    __rand__ = _bin("bitwise_and", True)
    __or__ = _bin("bitwise_or")
    __ror__ = _bin("bitwise_or", True)
    __xor__ = _bin("bitwise_xor")
    __rxor__ = _bin("bitwise_xor", True)
    __lshift__ = _bin("bitwise_left_shift")
    __rshift__ = _bin("bitwise_right_shift")
    __eq__ = _bin("eq")  # type: ignore[assignment]  # element-wise, like torch.Tensor
    __ne__ = _bin("ne")  # type: ignore[assignment]
    __hash__ = object.__hash__  # type: ignore[assignment]
    __lt__ = _bin("lt")
    __le__ = _bin("le")
    __gt__ = _bin("gt")
    __ge__ = _bin("ge")

    def __invert__(self) -> Any:
        return _dispatch("bitwise_not", torch.bitwise_not, (self,), {})

    def __neg__(self) -> Any:
        return _dispatch("neg", torch.neg, (self,), {})

    def __abs__(self) -> Any:
        return _dispatch("abs", torch.abs, (self,), {})

    def _ibin(name: str) -> Callable[..., Any]:  # type: ignore[misc]
        def op(self: "BTensor", other: Any) -> Any:
            res = _dispatch(name, getattr(torch, name), (self, other), {})
            # torch raises if the promoted result cannot be cast back in place (float->int)
            if res.dtype != self.dtype and (res.dtype in FSORT) and (self.dtype not in FSORT):
                raise RuntimeError("result type Float can't be cast to the desired output type")
            return self._assign(res)

        return op

    __iadd__ = _ibin("add")
    __isub__ = _ibin("sub")
    __imul__ = _ibin("mul")
    __itruediv__ = _ibin("true_divide")
    __iand__ = _ibin("bitwise_and")
    __ior__ = _ibin("bitwise_or")
    __ixor__ = _ibin("bitwise_xor")
    __ilshift__ = _ibin("bitwise_left_shift")
    __irshift__ = _ibin("bitwise_right_shift")


ALIASES = {
    "clip": "clamp", "divide": "true_divide", "div": "true_divide", "multiply": "mul",
    "subtract": "sub", "__lshift__": "bitwise_left_shift", "__rshift__": "bitwise_right_shift",
    "__and__": "bitwise_and", "__or__": "bitwise_or", "__xor__": "bitwise_xor",
    "negative": "neg", "absolute": "abs", "float": "_float", "double": "_double", "int": "_int",
    "long": "_long", "half": "_half", "bfloat16": "_bfloat16",
}
SHAPE_ONLY = {"reshape", "flatten", "contiguous", "clone", "detach", "unsqueeze", "squeeze",
              "expand", "expand_as", "t", "transpose", "permute", "view_as", "requires_grad_"}


def _meta_of(x: Any) -> Any:
    if isinstance(x, BTensor):
        return x.meta
    if isinstance(x, (tuple, list)):
        return type(x)(_meta_of(v) for v in x)
    return x


def _operand(x: Any, rt: torch.dtype) -> Any:
    if isinstance(x, BTensor):
        return _convert(x.val, x.dtype, rt)
    if isinstance(x, torch.Tensor):
        return _const(_real_scalar_value(x), rt)
    return _const(x, rt)


def _dispatch(name: str, func: Any, args: Tuple[Any, ...], kwargs: Dict[str, Any]) -> Any:
    name = ALIASES.get(name, name)
    sess = Session.current
    if sess is not None:
        sess.ops.append(name)
    # 1. let torch decide shape / dtype / errors on meta tensors
    margs = tuple(_meta_of(a) for a in args)
    mkw = {k: _meta_of(v) for k, v in kwargs.items() if k != "device"}
    if name.startswith("_") and name[1:] in ("float", "double", "int", "long", "half", "bfloat16"):
        mout = getattr(margs[0], name[1:])()
    else:
        mout = func(*margs, **mkw)
    if not isinstance(mout, torch.Tensor):
        return mout
    rt = mout.dtype
    bts = [a for a in args if isinstance(a, BTensor)]
    scr = any(b.scrambled for b in bts)
    first = bts[0]

    def out(val: Any, scrambled: bool = False) -> BTensor:
        return BTensor(mout, val, scr or scrambled)

    if name in ("to", "type", "_float", "_double", "_int", "_long", "_half", "_bfloat16"):
        if rt == first.dtype and mout.shape == first.shape:
            return first  # torch returns self when nothing changes
        return out(_convert(first.val, first.dtype, rt))
    if name == "view":
        tgt = args[1] if len(args) > 1 else kwargs.get("dtype")
        if isinstance(tgt, torch.dtype):
            src = first.dtype
            if src.itemsize != tgt.itemsize:
                if sess is not None:
                    sess.events.append(f"view({src}->{tgt}) changes element size: shape "
                                       f"{tuple(first.shape)}->{tuple(mout.shape)}")
                return out(sess.fresh_var(tgt) if sess else None, scrambled=True)
            return BTensor(mout, None, scr, root=first)  # same storage, other element type
        return BTensor(mout, None, scr, root=first)
    if name in SHAPE_ONLY:
        if name == "clone":
            return out(first.val)
        return BTensor(mout, None, scr, root=first)  # views (and detach) share the storage of their base
    # 2. element-wise value semantics
    if name in ("add", "sub", "mul", "true_divide"):
        a, b = _operand(args[0], rt), _operand(args[1], rt)
        alpha = kwargs.get("alpha", 1)
        if alpha != 1:
            raise NotImplementedError("alpha")
        if rt in FSORT:
            f = {"add": z3.fpAdd, "sub": z3.fpSub, "mul": z3.fpMul, "true_divide": z3.fpDiv}[name]
            return out(f(RNE, a, b))
        f2 = {"add": lambda x, y: x + y, "sub": lambda x, y: x - y, "mul": lambda x, y: x * y}[name]
        return out(f2(a, b))
    if name == "floor_divide":
        a, b = _operand(args[0], rt), _operand(args[1], rt)
        if rt in FSORT:
            return out(z3.fpRoundToIntegral(z3.RTN(), z3.fpDiv(RNE, a, b)))
        q = a / b  # signed division truncates; adjust to floor
        adj = z3.And(z3.SRem(a, b) != 0, (a < 0) != (b < 0))
        return out(z3.If(adj, q - 1, q))
    if name in ("bitwise_and", "bitwise_or", "bitwise_xor"):
        a, b = _operand(args[0], rt), _operand(args[1], rt)
        if rt == torch.bool:
            f3 = {"bitwise_and": z3.And, "bitwise_or": z3.Or, "bitwise_xor": z3.Xor}[name]
            return out(f3(a, b))
        return out({"bitwise_and": lambda x, y: x & y, "bitwise_or": lambda x, y: x | y,
                    "bitwise_xor": lambda x, y: x ^ y}[name](a, b))
    if name == "bitwise_not":
        return out(z3.Not(first.val) if rt == torch.bool else ~_operand(args[0], rt))
    if name in ("bitwise_left_shift", "bitwise_right_shift"):
        a, b = _operand(args[0], rt), _operand(args[1], rt)
        return out(a << b if name == "bitwise_left_shift" else a >> b)
    if name == "neg":
        a = _operand(args[0], rt)
        return out(z3.fpNeg(a) if rt in FSORT else -a)
    if name == "abs":
        a = _operand(args[0], rt)
        return out(z3.fpAbs(a) if rt in FSORT else z3.If(a < 0, -a, a))
    if name == "clamp":
        lo = args[1] if len(args) > 1 else kwargs.get("min")
        hi = args[2] if len(args) > 2 else kwargs.get("max")
        v = _operand(args[0], rt)
        if rt in FSORT:
            if lo is not None:
                l = _operand(lo, rt)
                v = z3.If(z3.fpIsNaN(v), v, z3.If(z3.fpLT(v, l), l, v))
            if hi is not None:
                h = _operand(hi, rt)
                v = z3.If(z3.fpIsNaN(v), v, z3.If(z3.fpGT(v, h), h, v))
        else:
            if lo is not None:
                l = _operand(lo, rt)
                v = z3.If(v < l, l, v)
            if hi is not None:
                h = _operand(hi, rt)
                v = z3.If(v > h, h, v)
        return out(v)
    if name in ("minimum", "maximum"):
        ct = torch.result_type(margs[0], margs[1])
        a, b = _operand(args[0], ct), _operand(args[1], ct)
        if ct in FSORT:
            lt = z3.fpLT(a, b) if name == "minimum" else z3.fpGT(a, b)
            r = z3.If(z3.fpIsNaN(a), a, z3.If(z3.fpIsNaN(b), b, z3.If(lt, a, b)))
        else:
            r = z3.If(a < b, a, b) if name == "minimum" else z3.If(a > b, a, b)
        return out(r)
    if name in ("lt", "le", "gt", "ge", "eq", "ne"):
        ct = torch.result_type(margs[0], margs[1])
        a, b = _operand(args[0], ct), _operand(args[1], ct)
        if ct in FSORT:
            f4 = {"lt": z3.fpLT, "le": z3.fpLEQ, "gt": z3.fpGT, "ge": z3.fpGEQ, "eq": z3.fpEQ,
                  "ne": lambda x, y: z3.Not(z3.fpEQ(x, y))}[name]
            return out(f4(a, b))
        f5 = {"lt": lambda x, y: x < y, "le": lambda x, y: x <= y, "gt": lambda x, y: x > y,
              "ge": lambda x, y: x >= y, "eq": lambda x, y: x == y, "ne": lambda x, y: x != y}[name]
        return out(f5(a, b))
    if name == "where":
        c = args[0]
        cv = c.val if isinstance(c, BTensor) else z3.BoolVal(bool(_real_scalar_value(c)))
        return out(z3.If(cv, _operand(args[1], rt), _operand(args[2], rt)))
    if name == "sign":
        a = _operand(args[0], rt)
        if rt in FSORT:
            return out(z3.If(z3.fpIsZero(a), a, z3.If(z3.fpIsNegative(a), _const(-1.0, rt), _const(1.0, rt))))
    if name == "copysign":
        a, b = _operand(args[0], rt), _operand(args[1], rt)
        return out(z3.If(z3.fpIsNegative(b), z3.fpNeg(z3.fpAbs(a)), z3.fpAbs(a)))
    if name in ("isnan", "isinf", "isfinite"):
        a = first.val
        return out({"isnan": z3.fpIsNaN(a), "isinf": z3.fpIsInf(a),
                    "isfinite": z3.Not(z3.Or(z3.fpIsNaN(a), z3.fpIsInf(a)))}[name])
    if name in ("zeros_like", "ones_like", "full_like"):
        v = 0 if name == "zeros_like" else 1 if name == "ones_like" else args[1]
        return BTensor(mout, _const(v, rt), False)
    raise NotImplementedError(f"bits engine has no SMT semantics for torch op '{name}'")
