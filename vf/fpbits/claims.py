"""Obligations over the encoded quantiser (C13 nearest, C14 stochastic) + concrete replays."""
from __future__ import annotations

import time
from fractions import Fraction
from typing import Any, Dict, List, Optional, Tuple

import torch
import z3

from ..report import CONCRETE, CONTROL, INCONCLUSIVE, PROVED, describe_function
from ..smt import check, model_int
from .encode import (BITS, Encoded, Oracle, bits_f32, c_neighbours, c_representable, f32_bits,
                     real_quantise, run_quantise)

DT = {"float32": torch.float32, "float64": torch.float64, "bfloat16": torch.bfloat16, "float16": torch.float16}


def _fmt(E: int, M: int, rounding: str, srbits: int = 0) -> Any:
    from unit_scaling.formats import FPFormat

    return FPFormat(E, M, rounding, srbits)


def _q_of(enc: Encoded, xb_new: Any) -> Any:
    """Q as a function of the input bits: substitute the input variable."""
    return z3.substitute(enc.q32, (enc.xbits, xb_new))


def real_up_probability(fmt: Any, E: int, M: int, srbits: int, xbits: int) -> Optional[Tuple[Fraction, Fraction, int, List[int]]]:
    """Replay helper: the real quantise on 2^s copies of one float32 value (s = srbits, or 23-M for 'all discarded bits'), with torch.randint
    answered by every value of the range it asks for equally often; returns (counted probability of the upper neighbour, exact fractional
    position, s, requested ranges) or None when the draws cannot be enumerated that way (then nothing is concluded)."""
    s_eff = srbits or (23 - M)
    N = 2 ** s_eff
    x = torch.tensor([xbits - (1 << 32) if xbits >= 2 ** 31 else xbits], dtype=torch.int32).view(torch.float32).expand(N).clone()
    xv = x[0].item()
    a, lo, hi, u = c_neighbours(E, M, xv)
    if hi == lo or a != Fraction(abs(xv)):
        return None
    orig = torch.randint
    highs: List[int] = []
    state = {"ok": True}

    def fake(*args: Any, **k: Any) -> torch.Tensor:
        r = orig(*args, **k)
        nums = []
        for v in args:
            if isinstance(v, int) and not isinstance(v, bool):
                nums.append(v)
            else:
                break
        low, high = (nums[0], nums[1]) if len(nums) >= 2 else (0, nums[0]) if nums else (k.get("low", 0), k.get("high"))
        low, high = k.get("low", low), k.get("high", high)
        if high is None or r.numel() % (high - low) != 0:
            state["ok"] = False
            return r
        highs.append(high - low)
        r.copy_((torch.arange(r.numel(), dtype=torch.int64) % (high - low) + low).reshape(r.shape).to(r.dtype))
        return r

    torch.randint = fake
    try:
        q = fmt.quantise(x)
    except Exception:
        return None
    finally:
        torch.randint = orig
    if not state["ok"] or len(highs) != 1:
        return None
    ups = int((q.abs().double() == float(hi)).sum().item())
    downs = int((q.abs().double() == float(lo)).sum().item())
    if ups + downs != N:
        return None
    return Fraction(ups, N), (a - lo) / (hi - lo), s_eff, highs


# ----------------------------------------------------------------------------- concrete claim evaluation (replay)
def concrete_eval(E: int, M: int, rounding: str, srbits: int, claim: str, w: Dict[str, int],
                  dtype: str = "float32", shape: Tuple[int, ...] = (3,)) -> Tuple[bool, str]:
    """Evaluate `claim` on the real code for the witness `w`; returns (claim_holds, description)."""
    fmt = _fmt(E, M, rounding, srbits)
    dt = DT[dtype]
    draws = [w[k] for k in sorted(w) if k.startswith("r")]

    def Q(bits: int, dr: Optional[List[int]] = None) -> Tuple[Optional[float], Any]:
        try:
            q = real_quantise(fmt, bits, dt, tuple(shape), dr if dr is not None else draws)
        except Exception as e:
            return None, f"{type(e).__name__}: {e}"
        return q, None

    xbits = w["x"]
    if dtype == "float32":
        xv = bits_f32(xbits)
    elif dtype == "float64":
        import struct
        xv = struct.unpack("<d", struct.pack("<Q", xbits))[0]
    else:
        xv = torch.tensor([xbits - (1 << 16) if xbits >= 2 ** 15 else xbits], dtype=torch.int16).view(dt).float().item()
    x32 = torch.tensor(xv, dtype=torch.float64).to(torch.float32).item() if dtype == "float64" else xv
    q, err = Q(xbits)
    if claim == "no_error":
        return err is None, f"quantise({dtype}{list(shape)} filled with bits {xbits:#x}) -> {err}"
    if err is not None:
        return False, f"quantise raised {err}"
    if claim == "shape_dtype":
        ok = tuple(q.shape) == tuple(shape) and q.dtype == dt
        return ok, f"input {dtype}{list(shape)} -> output {q.dtype}{list(q.shape)}"
    if claim == "unmodified":
        return not q._verif_modified, "input tensor was modified in place"
    if claim == "elementwise":
        # independent draws need at least one random integer per element: fewer requested than elements means that elements
        # share a draw (decided on the real code with the real random source's request sizes recorded)
        n = q.numel()
        got = sum(q._verif_drawn)
        ok = (rounding != "stochastic") or got >= n
        desc = f"{dtype}{list(shape)}: {n} elements, random integers requested per call {q._verif_drawn}"
        if ok and rounding == "stochastic" and dtype == "float32":
            # the draw's range decides whether the probability can be exact: counted on the real code over EVERY value of the draw
            pr = real_up_probability(fmt, E, M, srbits, xbits)
            if pr is not None:
                P, pexact, s_eff, highs = pr
                tol = Fraction(0) if srbits == 0 else Fraction(1, 2 ** (s_eff + 1))
                ok = abs(P - pexact) <= tol
                desc += f"; x={x32!r}: P(round away from zero) over all draws of randint ranges {highs} = {P}, exact fractional position {pexact}, allowed deviation {tol}"
        return ok, desc
    if q.numel() == 0:
        return True, "empty"
    qv = q.flatten()[0].double().item()
    a, lo, hi, u = c_neighbours(E, M, x32)
    desc = f"x={x32!r} (bits {xbits:#x}) draws={draws} -> q={qv!r}; clamp|x|={float(a)!r} lo={float(lo)!r} hi={float(hi)!r}"
    if qv != qv or abs(qv) == float("inf"):
        return False, desc + " (non-finite result)"
    aq = Fraction(abs(qv))
    if claim == "repr":
        sign_ok = (qv == 0) or ((qv < 0) == (x32 < 0))
        return c_representable(E, M, qv) and sign_ok, desc
    if claim in ("neighbour", "always_down", "always_up"):
        if claim == "always_down":
            return aq == lo, desc
        if claim == "always_up":
            return aq == hi, desc
        return aq in (lo, hi), desc
    if claim in ("nearest_tol", "nearest_exact"):
        tol = u * Fraction(2) ** (M - 23) if claim == "nearest_tol" else 0
        return abs(aq - a) <= min(a - lo, hi - a) + tol, desc
    if claim == "fixed":
        if not c_representable(E, M, x32):
            return True, desc
        return Fraction(qv) == Fraction(x32), desc
    if claim == "idempotent":
        qb = f32_bits(qv)
        q2, err2 = Q(qb)
        if err2:
            return False, err2
        return q2.flatten()[0].double().item() == qv, desc + f" Q(Q(x))={q2.flatten()[0].item()!r}"
    if claim == "odd":
        q2, err2 = Q(xbits ^ 0x80000000)
        return q2.flatten()[0].double().item() == -qv, desc + f" Q(-x)={q2.flatten()[0].item()!r}"
    if claim == "monotone":
        q2, err2 = Q(w["x2"])
        q2v = q2.flatten()[0].double().item()
        x2v = bits_f32(w["x2"])
        return not (x32 <= x2v) or qv <= q2v, desc + f"; x2={x2v!r} -> {q2v!r}"
    if claim == "monotone_r":
        q2, err2 = Q(xbits, [w["r0b"]])
        q2v = abs(q2.flatten()[0].double().item())
        return not (w["r0"] <= w["r0b"]) or abs(qv) <= q2v, desc + f"; r'={w['r0b']} -> {q2v!r}"
    if claim in ("below_lo", "above_hi"):
        # threshold claims: decide from exact position
        s = srbits
        p = (a - lo) / u if hi != lo else Fraction(0)
        sub = a < Fraction(2) ** (1 - 2 ** (E - 1))
        dsub = Fraction(2) ** s * Fraction(2) ** (M - 24) if sub else 0
        half = Fraction(1, 2) if s < 23 - M else 0
        r = w["r0"]
        T = Fraction(2) ** s * (1 - p)
        if claim == "below_lo":
            return not (r < T - half - dsub) or aq == lo, desc + f" p={float(p)}"
        if s < 23 - M:
            return not (r > T - half + dsub) or aq == hi, desc + f" p={float(p)}"
        return not (r >= T + dsub) or aq == hi, desc + f" p={float(p)}"
    raise KeyError(claim)


# ----------------------------------------------------------------------------- symbolic obligations
def _witness(model: Any, enc: Encoded, extra: Dict[str, Any]) -> Dict[str, int]:
    w = {"x": model_int(model, enc.xbits)}
    for i, d in enumerate(enc.draws):
        w[f"r{i}"] = model_int(model, d)
    for k, v in extra.items():
        w[k] = model_int(model, v)
    return w


def nearest_task(E: int, M: int, claim: str, timeout_s: float, dtype: str = "float32",
                 shape: Tuple[int, ...] = (3,)) -> List[Dict[str, Any]]:
    return _task(E, M, "nearest", 0, claim, timeout_s, dtype, shape)


def _task(E: int, M: int, rounding: str, srbits: int, claim: str, timeout_s: float,
          dtype: str = "float32", shape: Tuple[int, ...] = (3,)) -> List[Dict[str, Any]]:
    """One (format, claim) obligation: encode from the live source, solve, replay on sat."""
    from unit_scaling.formats import FPFormat

    torch.set_num_threads(1)
    fmt = _fmt(E, M, rounding, srbits)
    srb = fmt.srbits
    tag = f"E{E}M{M}-{rounding}" + (f"-sr{srbits}" if rounding == "stochastic" else "")
    name = f"{tag}/{dtype}{list(shape)}/{claim}"
    recs: List[Dict[str, Any]] = [{"type": "function", "functions": [describe_function(FPFormat.quantise)]}]
    t0 = time.time()
    enc = run_quantise(fmt, DT[dtype], tuple(shape))
    orc = Oracle(E, M)
    key = f"C13/{name}" if rounding == "nearest" else f"C14/{name}"

    def record(status: str, secs: float, detail: Any = None, kind: str = "solver") -> None:
        recs.append({"type": "obligation", "name": name, "status": status, "secs": secs, "detail": detail, "kind": kind})

    def confirm(w: Dict[str, int], what: str) -> None:
        holds, desc = concrete_eval(E, M, rounding, srbits, claim, w, dtype, shape)
        if not holds:
            recs.append({"type": "violation", "key": key, "what": f"{claim} fails for {tag}: {desc}",
                         "replay": {"E": E, "M": M, "rounding": rounding, "srbits": srbits, "claim": claim,
                                    "witness": w, "dtype": dtype, "shape": list(shape)}})
        else:
            record(INCONCLUSIVE, 0.0, f"solver witness {w} for '{claim}' does not reproduce on the real code ({desc}): encoding suspect")

    # ---- structural claims (decided by running the real code on meta tensors; witness = any value)
    if claim == "no_error":
        if enc.error is None:
            record(PROVED, 0.0, "symbolic run completed on meta tensors", kind="structural")
        else:
            confirm({"x": 0x3FC00000 if dtype == "float32" else 0x3FF8000000000000 if dtype == "float64" else 0x3FC0 if dtype == "bfloat16" else 0x3E00}, enc.error)
        return recs
    if enc.error is not None:  # every claim of this configuration fails the same way: report it once (same key)
        claim = "no_error"
        name = f"{tag}/{dtype}{list(shape)}/{claim}"
        key = (f"C13/{name}" if rounding == "nearest" else f"C14/{name}")
        confirm({"x": 0x3FC00000 if dtype == "float32" else 0x3FF8000000000000 if dtype == "float64" else 0x3FC0 if dtype == "bfloat16" else 0x3E00}, enc.error)
        return recs
    if claim == "shape_dtype":
        ok = tuple(enc.out.shape) == tuple(shape) and enc.out.dtype == DT[dtype]
        if ok:
            record(PROVED, 0.0, f"{dtype}{list(shape)} preserved", kind="structural")
        else:
            confirm({"x": 0x3FC00000 if dtype == "float32" else 0x3FF8000000000000 if dtype == "float64" else 0x3FC0 if dtype == "bfloat16" else 0x3E00}, "shape")
        return recs
    if claim == "unmodified":
        if enc.x.version == 0 and enc.out is not enc.x:
            record(PROVED, 0.0, "no in-place op reached the input object", kind="structural")
        else:
            confirm({"x": 0x40490FDB if dtype == "float32" else 0x400921FB54442D18 if dtype == "float64" else 0x4049 if dtype == "bfloat16" else 0x4248}, "in-place")
        return recs
    if claim == "elementwise":
        ok = not enc.out.scrambled and all(tuple(d[2]) == tuple(shape) for d in enc.sess.draws)
        if rounding == "stochastic":
            ok = ok and len(enc.sess.draws) == 1 and enc.sess.draws[0][1] == 2 ** srb
        if ok:
            record(PROVED, 0.0, f"ops={sorted(set(enc.sess.ops))} draws={[(d[1], d[2]) for d in enc.sess.draws]} events={enc.sess.events}", kind="structural")
        else:
            # float32 witness 1.35 (all mantissa bits in play: the replay counts the rounding probability over every draw)
            confirm({"x": 0x3FACCCCD if dtype == "float32" else 0x3FF8000000000000 if dtype == "float64" else 0x3FC0 if dtype == "bfloat16" else 0x3E00},
                    f"draws={[(d[1], d[2]) for d in enc.sess.draws]} events={enc.sess.events}")
        return recs
    if enc.out.scrambled or enc.q32 is None:
        record(INCONCLUSIVE, 0.0, f"pipeline is not element-wise: {enc.sess.events}")
        return recs

    xb, qb = enc.x32, enc.q32
    dom = [orc.domain(xb)] + list(enc.sess.constraints)
    if dtype != "float32":  # input domain: not NaN in its own dtype either
        dom.append(z3.Not(z3.fpIsNaN(enc.x.val)))
    nc, lo, hi, u = orc.neighbours(xb)
    nq = orc.n_raw(qb)
    ok_range = orc.in_range(qb)
    extra: Dict[str, Any] = {}
    expect_sat = False
    if claim == "repr":
        goal = z3.And(orc.representable(qb), z3.Or(orc.sign(qb) == orc.sign(xb), nq == 0))
    elif claim == "neighbour":
        goal = z3.And(ok_range, z3.Or(nq == lo, nq == hi))
    elif claim == "nearest_tol":
        tol = z3.LShR(u, z3.BitVecVal(23 - M, orc.W))
        dist = z3.If(z3.UGE(nq, nc), nq - nc, nc - nq)
        best = z3.If(z3.ULE(nc - lo, hi - nc), nc - lo, hi - nc)
        goal = z3.And(ok_range, z3.ULE(dist, best + tol))
    elif claim == "nearest_exact":  # negative control: must be sat (double rounding in the subnormal range)
        dist = z3.If(z3.UGE(nq, nc), nq - nc, nc - nq)
        best = z3.If(z3.ULE(nc - lo, hi - nc), nc - lo, hi - nc)
        goal = z3.And(ok_range, z3.ULE(dist, best))
        expect_sat = True
    elif claim == "always_down":  # negative control / reachability twin
        goal = nq == lo
        expect_sat = True
    elif claim == "always_up":
        goal = nq == hi
        expect_sat = True
    elif claim == "fixed":
        dom.append(orc.representable(xb))
        goal = z3.Or(qb == xb, z3.And(nq == 0, orc.n_raw(xb) == 0))
    elif claim == "idempotent":
        if rounding != "nearest":
            return recs
        goal = _q_of_x32(enc, qb) == qb
    elif claim == "odd":
        flip = z3.BitVecVal(0x80000000, 32)
        goal = _q_of_x32(enc, xb ^ flip) == (qb ^ flip)
    elif claim == "monotone":
        x2 = z3.BitVec("x2", 32)
        extra["x2"] = x2
        q2 = _q_of_x32(enc, x2)
        dom += [orc.domain(x2), z3.fpLEQ(z3.fpBVToFP(xb, z3.Float32()), z3.fpBVToFP(x2, z3.Float32()))]
        goal = z3.fpLEQ(z3.fpBVToFP(qb, z3.Float32()), z3.fpBVToFP(q2, z3.Float32()))
    elif claim == "monotone_r":
        r = enc.draws[0]
        r2 = z3.BitVec("r0b", r.size())
        extra["r0b"] = r2
        q2 = z3.substitute(qb, (r, r2))
        dom += [z3.substitute(c, (r, r2)) for c in enc.sess.constraints] + [r <= r2]
        goal = z3.ULE(orc.mag(qb), orc.mag(q2))
    elif claim in ("below_lo", "above_hi"):
        # exact fractional position p = (nc - lo)/u; draw r in [0, 2^s).  Scaled by u:
        #   r*u <  2^s (u - frac) - slack*u  => lo ;   r*u >= 2^s (u - frac) + slack*u => hi
        s = srb
        W = orc.W + 40
        rx = z3.ZeroExt(W - enc.draws[0].size(), enc.draws[0])
        ux = z3.ZeroExt(W - orc.W, u)
        frac = z3.ZeroExt(W - orc.W, nc - lo)
        sh = z3.ZeroExt(W - orc.W, orc.ushift(xb))
        ru = rx << sh
        thr = (ux - frac) << s
        sub = z3.ULT(nc, z3.BitVecVal(orc.nminnormal, orc.W))
        # count of rounding-up draws N_up = 2^s - r*  must satisfy |N_up - 2^s p| <= 1/2  (exact when s = 23-M):
        #   r* in [T - 1/2, T + 1/2], T = 2^s (1-p)   <=>   r < T - 1/2 => lo   and   r > T - 1/2 => hi
        half = z3.LShR(ux, 1) if s < 23 - M else z3.BitVecVal(0, W)
        dsub = z3.If(sub, z3.LShR(ux << s, 24 - M), z3.BitVecVal(0, W))
        dom.append(z3.Not(orc.saturates(xb)))
        if claim == "below_lo":
            dom += [z3.UGE(thr, half + dsub), z3.ULT(ru, thr - half - dsub)]
            goal = nq == lo
        else:
            if s < 23 - M:
                dom.append(z3.UGT(ru + half, thr + dsub))
            else:
                dom.append(z3.UGE(ru, thr + dsub))
            goal = nq == hi
    else:
        raise KeyError(claim)
    status, model, secs = check(dom + [z3.Not(goal)], timeout_s)
    enc_s = time.time() - t0 - secs
    det = {"format": tag, "claim": claim, "dtype": dtype, "shape": list(shape), "encode_s": round(enc_s, 3),
           "vars": f"x:BitVec({BITS[DT[dtype]]}) (every bit pattern in the domain)" + (f", r:[0,2^{srb})" if enc.draws else "")}
    if expect_sat:
        if status == "sat":
            w = _witness(model, enc, extra)
            holds, desc = concrete_eval(E, M, rounding, srbits, claim, w, dtype, shape)
            record(CONTROL if not holds else INCONCLUSIVE, secs,
                   {**det, "control_witness": w, "real_code": desc})
        elif status == "unsat":
            if claim == "always_down" and rounding == "nearest" and M == 22:
                # one discarded bit: every inexact float32 input is an exact tie, and "add half the mask, truncate" resolves every tie towards
                # zero - a legitimate nearest value each time, so this control is genuinely not refutable for M = 22 (always_up still is)
                record(CONTROL, secs, {**det, "why": "not refutable for M = 22: all inexact inputs are ties and ties go towards zero (a nearest value)"})
            else:
                record(INCONCLUSIVE, secs, {**det, "why": "negative control came back unsat: encoding vacuous?"})
        else:
            record(INCONCLUSIVE, secs, {**det, "why": "control unknown/timeout"})
        return recs
    if status == "unsat":
        record(PROVED, secs, det)
    elif status == "sat":
        w = _witness(model, enc, extra)
        confirm(w, claim)
        recs.append({"type": "obligation", "name": name + "/solver-time", "status": CONCRETE, "secs": secs,
                     "detail": {**det, "note": "query was sat; verdict is in the violation/inconclusive record"},
                     "kind": "solver"})
    else:
        record(INCONCLUSIVE, secs, {**det, "why": f"solver {status} after {timeout_s}s"})
    return recs


def _q_of_x32(enc: Encoded, new_x32: Any) -> Any:
    if enc.in_dtype != torch.float32:
        raise NotImplementedError
    return z3.substitute(enc.q32, (enc.xbits, new_x32))


def stochastic_task(E: int, M: int, srbits: int, claim: str, timeout_s: float) -> List[Dict[str, Any]]:
    return _task(E, M, "stochastic", srbits, claim, timeout_s)
