"""Obligation bookkeeping, known-findings handling, evidence files, exit codes.

Exit codes of every check:
  0  every obligation discharged (known findings are printed as KNOWN-FINDING lines)
  1  at least one counterexample that was *replayed on the real code* and is not listed in
     known_findings.json  ->  "VIOLATION property=<id> replay=<path>"
  2  harness error / inconclusive (solver unknown, timeout, counterexample that does not replay)
"""
from __future__ import annotations

import fnmatch
import json
import os
import sys
import time
import traceback
from typing import Any, Dict, List, Optional

ROOT = os.path.dirname(os.path.dirname(os.path.abspath(__file__)))
REPO = os.environ.get("VERIF_REPO", "/repo")
_OUT = os.environ.get("VERIF_OUT", ROOT)
EVIDENCE_DIR = os.path.join(_OUT, "evidence")
REPLAY_DIR = os.path.join(_OUT, "replays")
KNOWN = os.path.join(ROOT, "known_findings.json")

PROVED = "proved"  # unsat of (domain & path & not claim)
CONTROL = "control-ok"  # negative control / reachability twin came back sat as it must
VIOLATED = "violated"  # sat + replay confirmed on the real code
INCONCLUSIVE = "inconclusive"  # unknown / timeout / sat that does not replay / harness error
CONCRETE = "concrete-ok"  # side condition decided by running real objects (labelled, not solver decided)


def load_known() -> Dict[str, Any]:
    if not os.path.exists(KNOWN):
        return {"open": [], "fixed": []}
    with open(KNOWN) as f:
        return json.load(f)


def _jsonable(x: Any) -> Any:
    try:
        json.dumps(x)
        return x
    except TypeError:
        if isinstance(x, dict):
            return {str(k): _jsonable(v) for k, v in x.items()}
        if isinstance(x, (list, tuple, set)):
            return [_jsonable(v) for v in x]
        return repr(x)


def wild(pattern: str, key: str) -> bool:
    """'*' is the only wildcard (keys contain brackets, so fnmatch classes are unsuitable)."""
    parts = pattern.split("*")
    if len(parts) == 1:
        return pattern == key
    if not key.startswith(parts[0]) or not key.endswith(parts[-1]):
        return False
    pos = len(parts[0])
    end = len(key) - len(parts[-1])
    for mid in parts[1:-1]:
        i = key.find(mid, pos, end)
        if i < 0:
            return False
        pos = i + len(mid)
    return pos <= end


class Report:
    def __init__(self, pid: str, tier: str, seed: int, level: str):
        self.pid = pid
        self.tier = tier
        self.seed = seed
        self.level = level
        self.t0 = time.time()
        self.obligations: List[Dict[str, Any]] = []
        self.violations: List[Dict[str, Any]] = []
        self.samples: List[Any] = []
        self.functions: List[str] = []
        self.bounds: Dict[str, Any] = {}
        self.assumptions: List[str] = []
        self.trusted: List[str] = []
        self.stubs: List[str] = []
        self.extra: Dict[str, Any] = {}
        self.solver_s = 0.0
        self.queries = 0
        self.paths = 0
        self.programs = 0
        self.notes: List[str] = []
        self.diff: Dict[str, int] = {}
        self.diff_s = 0.0

    # ------------------------------------------------------------------ recording
    def add(self, name: str, status: str, secs: float = 0.0, detail: Any = None,
            queries: int = 1, kind: str = "solver") -> None:
        self.obligations.append(
            {"name": name, "status": status, "solver_s": round(secs, 4),
             "detail": _jsonable(detail), "kind": kind}
        )
        if kind == "solver":
            self.solver_s += secs
            self.queries += queries

    def extend(self, records: List[Dict[str, Any]]) -> None:
        """Merge records produced in a worker process (see par.py)."""
        for r in records:
            t = r.get("type", "obligation")
            if t == "obligation":
                self.add(r["name"], r["status"], r.get("secs", 0.0), r.get("detail"),
                         r.get("queries", 1), r.get("kind", "solver"))
            elif t == "violation":
                self.violation(r["key"], r["what"], r.get("replay", {}))
            elif t == "sample":
                self.sample(r["sample"])
            elif t == "diff":
                self.diff[r["result"]] = self.diff.get(r["result"], 0) + 1
                self.diff_s += r.get("secs", 0.0)
            elif t == "paths":
                self.paths += r["n"]
            elif t == "programs":
                self.programs += r["n"]
            elif t == "function":
                for f in r["functions"]:
                    if f not in self.functions:
                        self.functions.append(f)
            elif t == "stub":
                for f in r["stubs"]:
                    if f not in self.stubs:
                        self.stubs.append(f)

    def sample(self, s: Any, limit: int = 12) -> None:
        if len(self.samples) < limit:
            self.samples.append(_jsonable(s))

    def violation(self, key: str, what: str, replay: Dict[str, Any]) -> None:
        """A counterexample that has been replayed and reproduced on the real code."""
        if any(v["key"] == key for v in self.violations):
            return
        self.violations.append({"key": key, "what": what, "replay": _jsonable(replay)})
        self.add(key, VIOLATED, 0.0, what, queries=0, kind="replay")

    def inconclusive(self, name: str, why: str) -> None:
        self.add(name, INCONCLUSIVE, 0.0, why, queries=0)

    # ------------------------------------------------------------------ finishing
    def finish(self) -> int:
        known = load_known()
        open_items = [k for k in known.get("open", []) if k.get("property") == self.pid]
        unlisted = []
        listed_hit: Dict[str, Dict[str, Any]] = {}
        for v in self.violations:
            hit = None
            for k in open_items:
                if wild(k["key"], v["key"]):
                    hit = k
                    break
            if hit is None:
                unlisted.append(v)
            else:
                listed_hit.setdefault(hit["key"], hit)
        for k in listed_hit.values():
            print(f"KNOWN-FINDING: property={self.pid} {k['what']}")
        n_inc = sum(1 for o in self.obligations if o["status"] == INCONCLUSIVE)
        code = 0
        os.makedirs(REPLAY_DIR, exist_ok=True)
        for i, v in enumerate(unlisted):
            path = os.path.join(REPLAY_DIR, f"{self.pid}_{i}.json")
            with open(path, "w") as f:
                json.dump({"property": self.pid, "key": v["key"], "what": v["what"],
                           "replay": v["replay"]}, f, indent=1)
            print(f"VIOLATION property={self.pid} replay={path}")
            print(f"  key={v['key']}  {v['what']}")
            code = 1
        if code == 0 and n_inc:
            for o in self.obligations:
                if o["status"] == INCONCLUSIVE:
                    print(f"INCONCLUSIVE {self.pid} {o['name']}: {o['detail']}", file=sys.stderr)
            code = 2
        self._write(len(unlisted), n_inc, [k["key"] for k in listed_hit.values()])
        n_ok = sum(1 for o in self.obligations if o["status"] in (PROVED, CONTROL, CONCRETE))
        print(f"{self.pid} [{self.tier}] obligations={len(self.obligations)} discharged={n_ok} "
              f"violations={len(unlisted)} known={len(listed_hit)} inconclusive={n_inc} "
              f"solver_s={self.solver_s:.1f} wall_s={time.time() - self.t0:.1f} exit={code}")
        return code

    def _write(self, n_viol: int, n_inc: int, known_hit: List[str]) -> None:
        obs = self.obligations
        by_status: Dict[str, int] = {}
        for o in obs:
            by_status[o["status"]] = by_status.get(o["status"], 0) + 1
        solver_obs = [o for o in obs if o["kind"] == "solver"]
        distinct = len({o["name"] for o in solver_obs})
        discharged = sum(1 for o in obs if o["status"] in (PROVED, CONTROL, CONCRETE))
        samples = list(self.samples)
        for o in solver_obs:
            if len(samples) >= 8:
                break
            if o["status"] == PROVED and isinstance(o.get("detail"), dict) and o["detail"].get("smt"):
                samples.append({"obligation": o["name"], "verdict": "unsat of (domain & path & not claim)", "claim_smt": o["detail"]["smt"], "solver_s": o["solver_s"]})
        cov: Dict[str, Any] = {
            "evaluations": max(self.queries, len(obs)),
            "distinct_nontrivial": distinct,
            "rule": "one evaluation = one SMT query (or one labelled concrete side-condition); an obligation is "
                    "distinct by its (harness, path, claim) name and non-trivial iff it reached the solver "
                    "(syntactically decided claims are not counted)",
            "samples": samples[:12] or [o for o in obs[:3]],
            "syntactically_decided": sum(1 for o in obs if o["kind"] == "syntactic"),
            "obligations": len(obs),
            "discharged": discharged,
            "by_status": by_status,
            "solver_queries": self.queries,
            "solver_s": round(self.solver_s, 2),
            "paths": self.paths,
            "functions_encoded": self.functions,
            "bounds": self.bounds,
            "stubs": self.stubs + ([] if self.pid in ("C13", "C14") else _engine_s("ENGINE_S_STUBS", self.stubs)),
            "trusted_base": self.trusted,
            "known_findings_hit": known_hit,
            "second_solver_cvc5": {"sampled_proved_obligations": sum(self.diff.values()), "results": self.diff, "solver_s": round(self.diff_s, 2),
                                   "note": "a deterministic sample of z3-proved obligations re-decided by cvc5 1.4 on z3's SMT-LIB2 export; "
                                           "'sat' would be a disagreement (reported inconclusive), 'unknown' is cvc5 giving up within 10 s"},
            "inconclusive": n_inc,
            "slowest": sorted(({"name": o["name"], "s": o["solver_s"]} for o in solver_obs),
                              key=lambda d: -d["s"])[:5],
            "not_discharged": [o for o in obs if o["status"] in (VIOLATED, INCONCLUSIVE)][:20],
        }
        if self.level == "translation_validation":
            cov["programs"] = max(self.programs, 1) if self.programs else 0
            cov["disagreements_checked"] = len(self.violations)
        cov.update(_jsonable(self.extra))
        ev = {
            "property_id": self.pid,
            "tier": self.tier,
            "seed": self.seed,
            "level": self.level,
            "coverage": cov,
            "assumptions": self.assumptions + self.notes + ([] if self.pid in ("C13", "C14") else _engine_s("ENGINE_S_ASSUMPTIONS", self.assumptions)),
            "wall_s": round(time.time() - self.t0, 2),
            "violations": n_viol,
        }
        os.makedirs(EVIDENCE_DIR, exist_ok=True)
        tmp = os.path.join(EVIDENCE_DIR, f"{self.pid}.json.tmp")
        with open(tmp, "w") as f:
            json.dump(ev, f, indent=1)
        os.replace(tmp, os.path.join(EVIDENCE_DIR, f"{self.pid}.json"))


def _engine_s(name: str, have: List[str]) -> List[str]:
    """engine S's interception points / modelling assumptions (one shared list, defined next to the code that implements them)"""
    try:
        from .sym import tensor as T
        return [x for x in getattr(T, name) if x not in have]
    except Exception:
        return []


class _Lazy:
    """an attribute of the library looked up only when described: private helpers may be renamed or moved by a refactoring, and the
    list of encoded functions (evidence only) must never make a check fail"""

    def __init__(self, thunk: Any):
        self.thunk = thunk


def lazy(thunk: Any) -> _Lazy:
    return _Lazy(thunk)


def describe_function(fn: Any) -> str:
    if fn is None:
        return "<absent in this tree>"
    if isinstance(fn, _Lazy):
        try:
            fn = fn.thunk()
        except AttributeError:
            return "<absent in this tree>"
    """file:first-last line of a live code object (evidence: which code was encoded)."""
    import inspect

    try:
        fn = inspect.unwrap(fn)
        src, start = inspect.getsourcelines(fn)
        f = inspect.getsourcefile(fn) or "?"
        return f"{os.path.relpath(f, REPO)}:{start}-{start + len(src) - 1}:{getattr(fn, '__qualname__', fn)}"
    except Exception:
        return repr(fn)


def guarded(fn, *a, **k):
    """Run a harness; harness bugs are inconclusive records, never passes."""
    try:
        return fn(*a, **k)
    except Exception:  # CrossHair-style BaseExceptions are not swallowed
        return [{"type": "obligation", "name": getattr(fn, "__name__", "harness"),
                 "status": INCONCLUSIVE, "detail": traceback.format_exc()[-1500:], "queries": 0}]
