"""C16 - unit_scale() = the User-Guide hand conversion (engine G: translation validation).

Per program of the grammar: the REAL unit_scale() runs through TorchDynamo on real inputs (must not raise); the graph
Dynamo captured and the graph the library's backend produced are both taken from that real run; the rewritten
graph is interpreted on symbolic tensors (engine S: real U.* code, symbolic dims, all data) and unified - output and
every input/parameter gradient - with an independent reference interpreter that applies the recipe to the original graph."""
from __future__ import annotations

from typing import Any, Dict, List, Optional, Tuple

import torch
import z3

from ..fxsym import interp as ix
from ..fxsym.capture import capture
from ..fxsym.programs import SIZES, build, programs, root_specs, spec_name
from ..par import run_tasks
from ..report import CONCRETE, INCONCLUSIVE, Report, describe_function, lazy
from ..sym.runner import discharge
from ..sym.scalar import Ctx
from ..sym.tensor import Session, STensor
from .c06 import _eq_lc


def _custom_gelu(x: torch.Tensor) -> torch.Tensor:
    return x * torch.sigmoid(1.702 * x)


def _transform(replace: bool):
    from unit_scaling.transforms import unit_scale
    import unit_scaling.functional as U
    if replace:
        return lambda m: unit_scale(m, replace={torch.tanh: U.gelu})
    return unit_scale


def harness(spec: Any, cap: Any, replace: bool):
    def h(c: Ctx) -> None:
        import unit_scaling.functional as U
        info = {"program": spec_name(spec), "spec": _plain(spec), "replace": replace}
        table = ix.size_symbols(c)
        with Session():
            leaves = ix.leaves_for(c, cap.original, cap.example_inputs, table)
            out = ix.SymInterp(cap.rewritten, leaves).run_symbolic()
            out = out[0] if isinstance(out, (tuple, list)) else out
            G = STensor.leaf("G", out.shape, out.dtype)
            for t in leaves.values():
                t.grad = None
            out.backward(G)
            g_new = {k: t.grad for k, t in leaves.items()}
            for t in leaves.values():
                t.grad = None
            ref = ix.run_reference(cap.original, leaves, {torch.tanh: U.gelu} if replace else None)
            ref = ref[0] if isinstance(ref, (tuple, list)) else ref
            ref.backward(G)
            g_ref = {k: t.grad for k, t in leaves.items()}
            _eq_lc(c, "output = hand conversion", out.lc, ref.lc, {**info, "claim": "fwd"})
            for k, t in leaves.items():
                if not t.requires_grad or (g_new[k] is None and g_ref[k] is None):
                    continue
                if g_new[k] is None or g_ref[k] is None:
                    c.oblige(f"grad[{k}] = hand conversion's", z3.BoolVal(False), info={**info, "claim": "grad", "mismatch": "missing gradient"})
                else:
                    _eq_lc(c, f"grad[{k}] = hand conversion's", g_new[k], g_ref[k], {**info, "claim": "grad"})

    return h


def _plain(spec: Any) -> Any:
    segs, head, emb = spec
    return [[[k, list(b)] for k, b in segs], head, emb]


def _unplain(p: Any) -> Any:
    segs, head, emb = p
    return (tuple((k, tuple(b)) for k, b in segs), head, emb)


def concrete_compare(spec: Any, replace: bool, seed: int = 0) -> Tuple[bool, str]:
    """Replay: the real unit_scale'd module against the recipe reference evaluated concretely on the captured original graph."""
    import unit_scaling.functional as U
    p = build(spec)
    inputs = p.example_inputs(seed)
    cap = capture(_transform(replace), p, inputs)
    if cap.error:
        return True, f"unit_scale({spec_name(spec)}) fails on the real TorchDynamo path: {cap.error}"
    # reference on real tensors: same parameters as the transformed copy (re-initialised weights), taken from the captured inputs
    real_leaves = {}
    phs = [n for n in cap.original.graph.nodes if n.op == "placeholder"]
    for n, ex in zip(phs, cap.example_inputs):
        t = ex.detach().clone().double() if ex.is_floating_point() else ex.detach().clone()
        if t.is_floating_point():
            t.requires_grad_(True)
        real_leaves[str(n.target)] = t
    ref = ix.run_reference(cap.original, real_leaves, {torch.tanh: U.gelu} if replace else None)
    ref = ref[0] if isinstance(ref, (tuple, list)) else ref
    new_leaves = {k: (v.detach().clone().requires_grad_(True) if v.is_floating_point() else v.clone()) for k, v in real_leaves.items()}
    out = cap.rewritten(*[new_leaves[str(n.target)] for n in phs])
    out = out[0] if isinstance(out, (tuple, list)) else out
    bad = []
    if tuple(out.shape) != tuple(ref.shape) or not torch.allclose(out, ref, rtol=1e-9, atol=1e-11):
        bad.append(f"output differs from the hand conversion (max abs err {(out - ref).abs().max().item() if out.shape == ref.shape else 'shape'})")
    g = torch.randn(out.shape, dtype=out.dtype, generator=torch.Generator().manual_seed(1))
    fl = [k for k, v in real_leaves.items() if v.is_floating_point()]
    ga = torch.autograd.grad(out, [new_leaves[k] for k in fl], g, allow_unused=True)
    gb = torch.autograd.grad(ref, [real_leaves[k] for k in fl], g, allow_unused=True)
    for k, a, b in zip(fl, ga, gb):
        if (a is None) != (b is None) or (a is not None and not torch.allclose(a, b, rtol=1e-9, atol=1e-11)):
            bad.append(f"gradient of {k} differs")
    return bool(bad), f"unit_scale({spec_name(spec)}): " + "; ".join(bad or ["equals the hand conversion"])


def replay_c16(obname: str, model: Dict[str, Any], info: Any) -> Tuple[bool, str]:
    if info.get("history"):
        return history_compare(_unplain(info["spec"]), int(info["history"]))
    return concrete_compare(_unplain(info["spec"]), bool(info.get("replace")))


HISTORY = (True, False, True, False)  # replace flags of consecutive unit_scale calls in ONE process


def history_compare(spec: Any, upto: int = len(HISTORY)) -> Tuple[bool, str]:
    """consecutive unit_scale calls in one process, with and without user replacements: each call must follow the recipe with
    the replacements of THAT call only (the built-in table is process-wide state)"""
    bad = []
    for i, flag in enumerate(HISTORY[:upto]):
        b, desc = concrete_compare(spec, flag)
        if b:
            bad.append(f"call {i} (replace={flag}): {desc}")
    return bool(bad), f"unit_scale({spec_name(spec)}) called {upto} times with replace={list(HISTORY[:upto])}: " + "; ".join(bad[:2] or ["every call follows its own replacements"])


def task_history(spec: Any, timeout: float) -> List[Dict[str, Any]]:
    """the symbolic translation validation of every call of the history (same process), then the concrete comparison of the history"""
    torch.set_num_threads(1)
    recs: List[Dict[str, Any]] = []
    for i, flag in enumerate(HISTORY):
        recs += task_program(spec, flag, timeout, suffix=f"#call{i}", history_upto=i + 1)
    name = spec_name(spec) + "/replacement history"
    b, desc = history_compare(spec)
    if b:
        recs.append({"type": "violation", "key": f"C16/{name}", "what": desc, "replay": {"info": {"spec": _plain(spec), "history": len(HISTORY)}, "obligation": "history", "model": {}}})
    else:
        recs.append({"type": "obligation", "name": name, "status": CONCRETE, "queries": 0, "kind": "concrete", "detail": desc})
    return recs


def task_program(spec: Any, replace: bool, timeout: float, suffix: str = "", history_upto: int = 0) -> List[Dict[str, Any]]:
    torch.set_num_threads(1)
    name = spec_name(spec) + ("+replace" if replace else "") + suffix
    p = build(spec)
    cap = capture(_transform(replace), p, p.example_inputs())
    recs: List[Dict[str, Any]] = [{"type": "programs", "n": 1}]
    if cap.error or cap.original is None or cap.rewritten is None or cap.graphs != 1:
        if cap.error:
            recs.append({"type": "violation", "key": f"C16/{name}/runs-without-error",
                         "what": f"unit_scale({name}) fails on the real TorchDynamo path: {cap.error}",
                         "replay": {"info": {"spec": _plain(spec), "replace": replace}, "obligation": "run", "model": {}}})
        elif cap.graphs == 0:
            recs += _never_transformed("C16", name, spec, _transform(replace), {"spec": _plain(spec), "replace": replace})
        else:
            recs.append({"type": "obligation", "name": f"{name}/capture", "status": INCONCLUSIVE, "queries": 0,
                         "detail": f"Dynamo produced {cap.graphs} graphs (graph break): outside the single-graph program family"})
        return recs
    recs.append({"type": "obligation", "name": f"{name}/runs on the real TorchDynamo path", "status": CONCRETE, "queries": 0, "kind": "concrete",
                 "detail": f"{len(list(cap.original.graph.nodes))} nodes captured, {len(list(cap.rewritten.graph.nodes))} after the backend"})
    base = {"spec": _plain(spec), "replace": replace}
    if history_upto:
        base["history"] = history_upto  # the replay repeats the earlier calls of the history first
    recs += discharge("C16", name, harness(spec, cap, replace), replay_c16, timeout, base_info=base, skip_definedness=True)
    return recs


def _never_transformed(pid: str, name: str, spec: Any, transform: Any, info: Dict[str, Any]) -> List[Dict[str, Any]]:
    """The library's backend was never invoked (TorchDynamo did not hand over a graph).  If the returned module then computes
    exactly what an untransformed copy with the same parameters computes, the transform silently did nothing."""
    import copy as _copy
    p = build(spec)
    x = p.example_inputs()
    torch._dynamo.reset()
    tm = transform(p)
    out_t = tm(*[v.clone() for v in x])
    torch._dynamo.reset()
    plain = build(spec)
    plain.load_state_dict({k: v for k, v in tm.state_dict().items()})
    out_p = plain(*[v.clone() for v in x])
    same = isinstance(out_t, torch.Tensor) and out_t.shape == out_p.shape and torch.equal(out_t, out_p)
    if same:
        return [{"type": "violation", "key": f"{pid}/{name}/transform-applied",
                 "what": f"{spec_name(spec)}: the transform's backend was never invoked (TorchDynamo traced no graph for a root torch.nn layer) and the returned module "
                         f"computes bit for bit what the untransformed module computes with the same parameters: the transform silently did nothing",
                 "replay": {"info": {**info, "never": True}, "obligation": "transform-applied", "model": {}}}]
    return [{"type": "obligation", "name": f"{name}/capture", "status": INCONCLUSIVE, "queries": 0, "detail": "no graph captured but outputs differ from the untransformed module"}]


def task_weights() -> List[Dict[str, Any]]:
    """re-initialisation of Linear/Embedding weights to unit variance and biases to zero in the returned copy (concrete)."""
    from torch import nn
    from unit_scaling.transforms import unit_scale
    torch.set_num_threads(1)

    class M(nn.Module):
        def __init__(self) -> None:
            super().__init__()
            self.e = nn.Embedding(50, 64)
            self.l = nn.Linear(64, 32)
            self.ln = nn.LayerNorm(32)
            self.c = nn.Conv1d(4, 4, 1)

        def forward(self, i: torch.Tensor) -> torch.Tensor:
            return self.ln(self.l(self.e(i)))

    m = M()
    before = {k: v.detach().clone() for k, v in m.state_dict().items()}
    u = unit_scale(m)
    bad = []
    for k, v in m.state_dict().items():
        if not torch.equal(v, before[k]):
            bad.append(f"original {k} modified")
    if abs(u.e.weight.std().item() - 1) > 1e-4 or abs(u.l.weight.std().item() - 1) > 1e-4:
        bad.append(f"weights not unit variance: {u.e.weight.std().item()}, {u.l.weight.std().item()}")
    if u.l.bias.abs().max().item() != 0:
        bad.append("bias not zero")
    if not torch.equal(u.ln.weight.detach(), before["ln.weight"]) or not torch.equal(u.c.weight.detach(), before["c.weight"]):
        bad.append("non Linear/Embedding parameters were changed")
    if u.l.weight.data_ptr() == m.l.weight.data_ptr():
        bad.append("storage shared with the original")
    if bad:
        return [{"type": "violation", "key": "C16/weights-reinitialised", "what": "; ".join(bad), "replay": {"kind": "weights"}}]
    return [{"type": "obligation", "name": "weights re-initialised to unit variance, biases zero, original untouched", "status": CONCRETE, "queries": 0,
             "kind": "concrete", "detail": "Embedding(50,64), Linear(64,32) re-scaled; LayerNorm/Conv1d parameters unchanged"}]


def run(rep: Report, only: str = "") -> None:
    from unit_scaling.transforms import _unit_scale as us
    thorough = rep.tier == "thorough"
    timeout = 60 if thorough else 30
    specs = programs(rep.tier) + root_specs()
    tasks: List[Any] = [(task_program, (s, False, timeout)) for s in specs]
    tasks += [(task_program, (s, True, timeout)) for s in specs if any(k == "tanh" or "tanh" in b for k, b in s[0])][: (200 if thorough else 40)]
    hist = [s for s in specs if any(k == "tanh" or "tanh" in b for k, b in s[0])]
    tasks += [(task_history, (s, timeout)) for s in hist[:: max(1, len(hist) // (12 if thorough else 4))][: (12 if thorough else 4)]]
    tasks.append((task_weights, ()))
    if only:
        tasks = [t for t in tasks if only in (spec_name(t[1][0]) if t[1] else "weights")]
    rep.extend(run_tasks(tasks))
    rep.functions = [describe_function(f) for f in (lazy(lambda: us.unit_scaling_backend), lazy(lambda: us._unit_scale_residual), lazy(lambda: us._unconstrain_node), lazy(lambda: us._add_dependency_meta),
                                                    lazy(lambda: us._is_add), lazy(lambda: us._is_self_attention), lazy(lambda: us.unit_scale), lazy(lambda: us._unit_init_weights), lazy(lambda: us._zero_init_biases))]
    rep.bounds = {"programs": f"{len(specs)} module programs generated exhaustively from the grammar up to the tier's bound (1-3 segments: mapped ops incl. torch.nn wrappers, unmapped ops, "
                              "tensor+tensor / reversed / +scalar / in-place adds, residual blocks x+f(x) and f(x)+x with 1-2 op branches incl. softmax/attention, skip = input | residual "
                              "output | plain sum, heads none/mse/cross-entropy, optional embedding), plus user replacements {tanh: U.gelu}; the program axis is enumerated, not solved",
                  "per program": "all tensor data and all dimension symbols (B, S, widths, vocabulary <= 2^20) universally quantified; output and every input/parameter gradient",
                  "graphs": "captured from the real unit_scale() -> apply_transform -> TorchDynamo run on real inputs (which must not raise); no tracer stand-in",
                  "outside": "graph breaks, data-dependent control flow, torch.add spelled as a function, several residual adds sharing one skip tensor"}
    rep.assumptions = ["reference interpreter (vf/fxsym/interp.py:recipe_plan/run_reference) is the User-Guide recipe written independently of the backend",
                       "both sides execute the real U.* functions symbolically: what is validated is the graph rewrite (which ops, arguments, constraints, taus, splits)"]
    rep.trusted = ["TorchDynamo capture of the original program", "engine S", "z3 NRA"]
    rep.sample({"program": "add_in>res(sq)", "claim": "output and all gradients of the unit_scale'd graph unify with the hand conversion for all data and dims"})


def replay(data: Dict[str, Any]) -> Tuple[bool, str]:
    if data.get("kind") == "weights":
        r = task_weights()
        v = [x for x in r if x.get("type") == "violation"]
        return bool(v), str(v or "ok")
    info = data.get("info") or {}
    if info.get("never"):
        r = _never_transformed("C16", "replay", _unplain(info["spec"]), _transform(bool(info.get("replace"))), info)
        v = [x for x in r if x.get("type") == "violation"]
        return bool(v), str([x["what"] for x in v] or "transform applied")
    if info.get("history"):
        return history_compare(_unplain(info["spec"]), int(info["history"]))
    return concrete_compare(_unplain(info["spec"]), bool(info.get("replace")))
