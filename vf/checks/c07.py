"""C07 - transformer residual scaling rule: the real rule executed with symbolic residual_mult,
residual_attn_ratio, depth and branch index; inductive argument over all depths + unrolled cross-check."""
from __future__ import annotations

import math
from typing import Any, Dict, List, Tuple

import z3

from ..par import run_tasks
from ..report import CONCRETE, INCONCLUSIVE, Report, describe_function, lazy
from ..sym.runner import discharge
from ..sym.scalar import Ctx, SReal


def _rule(m: Any, r: Any) -> Any:
    from unit_scaling.core.functional import transformer_residual_scaling_rule

    return transformer_residual_scaling_rule(m, r)


def _oracle(m: Any, r: Any) -> Tuple[Any, Any]:
    """alpha_attn^2, alpha_mlp^2 from the docstring (independent of the code's arithmetic)."""
    am2 = 2 * m * m / (1 + r * r)
    return r * r * am2, am2


# ------------------------------------------------------------------------------------------ harnesses
def h_step(parity: int):
    def h(c: Ctx) -> None:
        m = c.real("m", 1 / 16, 16)
        r = c.real("r", 1 / 16, 16)
        L = c.dim("L", 1, 2 ** 20, sample=3)
        j = c.dim("j", 0, 2 ** 20, sample=1)
        c.assume(j <= L - 1)
        rule = _rule(m, r)
        k = 2 * j + parity
        tau = rule(k, 2 * L)
        aa2, am2 = _oracle(m, r)
        n_attn = j + parity  # attention branches before branch k: ceil(k/2)
        n_mlp = j  # MLP branches before branch k: floor(k/2)
        D = L + n_attn * aa2 + n_mlp * am2
        ak2 = aa2 if parity == 0 else am2
        c.oblige("tau>0", tau > 0)
        c.oblige("tau^2 = alpha_k^2 / D_k", tau * tau * D == ak2)
        # inductive step with the code's tau: every existing contribution /(1+tau^2), the new one tau^2/(1+tau^2)
        t2 = tau * tau
        Dn = D + ak2
        c.oblige("step: embedding", (L / D) / (1 + t2) == L / Dn)
        c.oblige("step: earlier attn", (aa2 / D) / (1 + t2) == aa2 / Dn)
        c.oblige("step: earlier mlp", (am2 / D) / (1 + t2) == am2 / Dn)
        c.oblige("step: new branch", t2 / (1 + t2) == ak2 / Dn)
        c.oblige("control: tau == alpha (must be sat)", tau * tau == ak2 + 1, kind="control")

    return h


def h_final(c: Ctx) -> None:
    m = c.real("m", 1 / 16, 16)
    r = c.real("r", 1 / 16, 16)
    L = c.dim("L", 1, 2 ** 20)
    aa2, am2 = _oracle(m, r)
    D0 = L + 0 * aa2
    c.oblige("Inv(0): embedding contribution is 1", L / D0 == 1)
    D = L + L * aa2 + L * am2  # Inv(N), N = 2L
    e2, a2, b2 = L / D, aa2 / D, am2 / D
    c.oblige("squares sum to 1", e2 + L * a2 + L * b2 == 1)
    c.oblige("attn:mlp ratio = r (squared)", a2 == r * r * b2)
    c.oblige("mean layer contribution / embedding = mult (squared)", ((L * a2 + L * b2) / 2) == m * m * e2)
    c.oblige("control: ratio = 1 (must be sat)", a2 == b2, kind="control")


def h_unrolled(n_layers: int):
    """Direct simulation of the residual scheme with the code's taus, depth concrete, m and r symbolic."""

    def h(c: Ctx) -> None:
        m = c.real("m", 1 / 16, 16)
        r = c.real("r", 1 / 16, 16)
        rule = _rule(m, r)
        N = 2 * n_layers
        _history(rule, n_layers)
        sq: List[Any] = [SReal(z3.RealVal(1))]  # squared contributions: embedding first
        for k in range(N):
            tau = rule(k, N)
            t2 = tau * tau
            sq = [s / (1 + t2) for s in sq] + [t2 / (1 + t2)]
        e2, attn, mlp = sq[0], sq[1::2], sq[2::2]
        tot = sq[0]
        for s in sq[1:]:
            tot = tot + s
        c.oblige("squares sum to 1", tot == 1)
        for i in range(1, len(attn)):
            c.oblige(f"attn[{i}] = attn[0]", attn[i] == attn[0])
            c.oblige(f"mlp[{i}] = mlp[0]", mlp[i] == mlp[0])
        sa, sm = sum(attn[1:], attn[0]), sum(mlp[1:], mlp[0])
        c.oblige("attn:mlp = r (squared)", sa == r * r * sm)
        c.oblige("mean layer / embedding = mult (squared)", (sa + sm) / 2 == m * m * e2)

    return h


def _history(rule: Any, n_layers: int) -> None:
    """The same rule object is first queried for a deeper and for a shallower stack: its answers must depend on
    (index, layers) only (one rule object is shared by every TransformerStack built with the default)."""
    for other in (n_layers + 2, max(1, n_layers - 1)):
        for k in range(2 * other):
            rule(k, 2 * other)


# ------------------------------------------------------------------------------------------ replay
def _concrete_claims(m: float, r: float, n_layers: int) -> Tuple[bool, str]:
    rule = _rule(m, r)
    N = 2 * n_layers
    _history(rule, n_layers)
    sq = [1.0]
    for k in range(N):
        t2 = rule(k, N) ** 2
        sq = [s / (1 + t2) for s in sq] + [t2 / (1 + t2)]
    e2, attn, mlp = sq[0], sq[1::2], sq[2::2]
    errs = []
    tol = 1e-9
    if abs(sum(sq) - 1) > tol:
        errs.append(f"sum of squares = {sum(sq)!r}")
    if max(attn) - min(attn) > tol * max(attn):
        errs.append(f"attention contributions differ: {attn}")
    if max(mlp) - min(mlp) > tol * max(mlp):
        errs.append(f"MLP contributions differ: {mlp}")
    if abs(sum(attn) / sum(mlp) - r * r) > tol * r * r:
        errs.append(f"attn/mlp = {math.sqrt(sum(attn) / sum(mlp))!r}, requested {r!r}")
    if abs((sum(attn) + sum(mlp)) / 2 / e2 - m * m) > tol * m * m:
        errs.append(f"mean layer/embedding = {math.sqrt((sum(attn) + sum(mlp)) / 2 / e2)!r}, requested {m!r}")
    return bool(errs), f"residual_mult={m!r} residual_attn_ratio={r!r} layers={n_layers}: " + "; ".join(errs)


def _replay(obname: str, md: Dict[str, Any], info: Any) -> Tuple[bool, str]:
    m, r = float(md["m"]), float(md["r"])
    if "L" in md:
        L = int(md["L"])
        if L > 4096:
            return False, f"depth {L} too large to replay"
        return _concrete_claims(m, r, L)
    return _concrete_claims(m, r, int(info["layers"]) if isinstance(info, dict) and "layers" in info else 3)


def _replay_n(n: int):
    def f(obname: str, md: Dict[str, Any], info: Any) -> Tuple[bool, str]:
        return _concrete_claims(float(md["m"]), float(md["r"]), n)

    return f


# ------------------------------------------------------------------------------------------ wiring (structural, concrete)
def wiring(max_layers: int) -> List[Dict[str, Any]]:
    import unit_scaling._modules as M

    recs: List[Dict[str, Any]] = []
    orig = M.TransformerLayer
    bad = []

    class Rec(M.nn.Module):  # type: ignore[name-defined,misc]
        def __init__(self, **kw: Any) -> None:
            super().__init__()
            self.kw = kw

    try:
        M.TransformerLayer = Rec  # type: ignore[misc]
        for L in range(1, max_layers + 1):
            calls = []

            def scaling(i: int, n: int) -> float:
                calls.append((i, n))
                return 1000.0 * n + i  # injective sentinel

            st = M.TransformerStack(layers=L, residual_scaling=scaling, hidden_size=8, heads=2, is_causal=True)
            got = [(l.kw["mhsa_tau"], l.kw["mlp_tau"]) for l in st]
            want = [(1000.0 * 2 * L + 2 * i, 1000.0 * 2 * L + 2 * i + 1) for i in range(L)]
            if got != want or len(st) != L:
                bad.append({"layers": L, "got": got, "want": want})
    finally:
        M.TransformerLayer = orig  # type: ignore[misc]
    # the default rule object is shared by all stacks: build deeper, then shallower stacks with it
    try:
        M.TransformerLayer = Rec  # type: ignore[misc]
        for L in (4, 2, 6, 1, 3):
            st = M.TransformerStack(layers=L, hidden_size=8, heads=2, is_causal=True)
            for i, l in enumerate(st):
                for got_tau, k in ((l.kw["mhsa_tau"], 2 * i), (l.kw["mlp_tau"], 2 * i + 1)):
                    want_tau = 1.0 / math.sqrt(L + (k + 1) // 2 + k // 2)  # closed form for mult = ratio = 1
                    if abs(got_tau - want_tau) > 1e-12:
                        bad.append({"layers": L, "default_rule_after_other_depths": True, "branch": k,
                                    "got": got_tau, "want": want_tau})
    finally:
        M.TransformerLayer = orig  # type: ignore[misc]
    if bad:
        recs.append({"type": "violation", "key": "C07/wiring/stack-assigns-taus-in-order",
                     "what": f"TransformerStack does not pass (rule(2i,2L), rule(2i+1,2L)) to layer i: {bad[0]}",
                     "replay": {"kind": "wiring", "layers": bad[0]["layers"]}})
    else:
        recs.append({"type": "obligation", "name": f"wiring/TransformerStack layers=1..{max_layers}", "status": CONCRETE,
                     "kind": "structural", "queries": 0,
                     "detail": "real TransformerStack.__init__ with a recording TransformerLayer and an injective residual_scaling: layer i receives (rule(2i,2L), rule(2i+1,2L))"})
    recs.append({"type": "function", "functions": [describe_function(lazy(lambda: M.TransformerStack.__init__))]})
    return recs


def stack_contributions(kind: str, L: int, m: float, r: float, dropout_p: float, default_rule: bool) -> Tuple[bool, str]:
    """End to end on the real modules: every attention / MLP sub-block of a real TransformerStack (or TransformerDecoder) is replaced by a
    probe that outputs its own basis vector, every norm by the identity; one eval-mode forward of a basis-vector input then reads off the
    coefficient with which the embedding and each branch reach the output.  Their squares must satisfy the property's five claims."""
    import torch
    import torch.nn as nn
    import unit_scaling as uu
    import unit_scaling._modules as M
    from unit_scaling.core.functional import transformer_residual_scaling_rule
    hidden = 2 * L + 2

    class Probe(nn.Module):
        def __init__(self, k: int) -> None:
            super().__init__()
            self.k = k

        def forward(self, x: Any, *a: Any, **kw: Any) -> Any:
            out = torch.zeros_like(x)
            out[..., self.k] = 1.0
            return out

    kw: Dict[str, Any] = {} if default_rule else {"residual_scaling": transformer_residual_scaling_rule(m, r)}
    if kind == "stack":
        st = M.TransformerStack(layers=L, hidden_size=hidden, heads=1, is_causal=True, dropout_p=dropout_p, **kw)
    else:
        dec = uu.TransformerDecoder(hidden_size=hidden, vocab_size=7, layers=L, heads=1, dropout_p=dropout_p, **kw)
        st = next(mod for mod in dec.modules() if isinstance(mod, M.TransformerStack))
    layers = [mod for mod in st.modules() if isinstance(mod, M.TransformerLayer)]
    if len(layers) != L:
        return True, f"{kind} with layers={L} holds {len(layers)} TransformerLayer modules"
    k = 1
    kinds: List[str] = []
    for layer in layers:
        for name, child in list(layer.named_children()):
            if isinstance(child, uu.MHSA):
                setattr(layer, name, Probe(k)); kinds.append("attn"); k += 1
            elif isinstance(child, uu.MLP):
                setattr(layer, name, Probe(k)); kinds.append("mlp"); k += 1
            elif isinstance(child, (uu.RMSNorm, uu.LayerNorm, nn.LayerNorm)):
                setattr(layer, name, nn.Identity())
    if kinds != ["attn", "mlp"] * L:
        return True, f"sub-blocks found in the order {kinds}"
    st.eval()
    x = torch.zeros(1, 1, hidden, dtype=torch.float64)
    x[..., 0] = 1.0
    # dropout is not part of the residual scheme the rule is about (U.dropout also rescales by sqrt(1-p) in eval mode): neutralised
    import unit_scaling.functional as UF
    orig_dropout = UF.dropout
    UF.dropout = lambda input, *a, **k: input  # type: ignore[assignment]
    try:
        with torch.no_grad():
            out = st(x)[0, 0]
    finally:
        UF.dropout = orig_dropout  # type: ignore[assignment]
    sq = [float(v) ** 2 for v in out[: 2 * L + 1]]
    e2, attn, mlp = sq[0], sq[1::2], sq[2::2]
    if default_rule:
        m, r = 1.0, 1.0
    errs = []
    tol = 1e-9
    if abs(sum(sq) - 1) > tol:
        errs.append(f"sum of squared contributions = {sum(sq)!r}")
    if max(attn) - min(attn) > tol * max(attn):
        errs.append(f"attention contributions differ: {attn}")
    if max(mlp) - min(mlp) > tol * max(mlp):
        errs.append(f"MLP contributions differ: {mlp}")
    if abs(sum(attn) / sum(mlp) - r * r) > tol * r * r:
        errs.append(f"attn/mlp = {math.sqrt(sum(attn) / sum(mlp))!r}, requested {r!r}")
    if abs((sum(attn) + sum(mlp)) / 2 / e2 - m * m) > tol * m * m:
        errs.append(f"mean layer/embedding = {math.sqrt((sum(attn) + sum(mlp)) / 2 / e2)!r}, requested {m!r}")
    return bool(errs), (f"real {kind}, layers={L}, residual_mult={m!r}, residual_attn_ratio={r!r}, dropout_p={dropout_p}, "
                        f"{'default' if default_rule else 'given'} rule: " + "; ".join(errs or ["contributions as stated"]))


CONTRIB_CFGS = [(kind, L, m, r, p, d) for kind in ("stack", "decoder") for (L, m, r, p, d) in
                [(1, 1.0, 1.0, 0.0, True), (3, 1.0, 1.0, 0.3, True), (2, 0.5, 2.0, 0.0, False), (3, 2.0, 1 / 3, 0.25, False), (4, 1 / 16, 16.0, 0.1, False),
                 (1, 16.0, 1 / 16, 0.3, False)]]


def task_contributions() -> List[Dict[str, Any]]:
    import torch
    torch.set_num_threads(1)
    recs: List[Dict[str, Any]] = []
    for cfg in CONTRIB_CFGS:
        name = "contributions[{},layers={},mult={:.4g},ratio={:.4g},dropout={},default_rule={}]".format(*cfg)
        try:
            bad, desc = stack_contributions(*cfg)
        except Exception as e:
            recs.append({"type": "obligation", "name": name, "status": INCONCLUSIVE, "queries": 0, "detail": f"probe construction failed: {type(e).__name__}: {e}"})
            continue
        if bad:
            recs.append({"type": "violation", "key": f"C07/{name}", "what": desc, "replay": {"kind": "contributions", "cfg": list(cfg)}})
        else:
            recs.append({"type": "obligation", "name": name, "status": CONCRETE, "kind": "concrete", "queries": 0, "detail": desc})
    return recs


def task_step(parity: int, timeout: float) -> List[Dict[str, Any]]:
    return discharge("C07", f"step[{'attn' if parity == 0 else 'mlp'}]", h_step(parity), _replay, timeout)


def task_final(timeout: float) -> List[Dict[str, Any]]:
    return discharge("C07", "final", h_final, _replay, timeout)


def task_unrolled(n: int, timeout: float) -> List[Dict[str, Any]]:
    return discharge("C07", f"unrolled[layers={n}]", h_unrolled(n), _replay_n(n), timeout)


def run(rep: Report, only: str = "") -> None:
    from unit_scaling.core.functional import transformer_residual_scaling_rule

    thorough = rep.tier == "thorough"
    timeout = 900 if thorough else 120
    depth = 1  # the unrolled cross-check at depth >= 2 leaves one nonlinear obligation undecided by z3 within minutes (measured): not claimed in either tier
    tasks = [(task_step, (0, timeout)), (task_step, (1, timeout)), (task_final, (timeout,))]
    tasks += [(task_unrolled, (n, timeout)) for n in range(1, depth + 1)]
    tasks.append((wiring, (64 if thorough else 32,)))
    tasks.append((task_contributions, ()))
    rep.extend(run_tasks(tasks))
    rep.functions.append(describe_function(transformer_residual_scaling_rule))
    rep.bounds = {
        "induction": "residual_mult, residual_attn_ratio in [1/16,16] (reals), layers L in [1,2^20], branch index k = 2j or 2j+1 with 0 <= j < L: all depths at once",
        "unrolled": f"depths 1..{depth} transformer layers with symbolic mult/ratio (no invariant), as a cross-check of the induction",
        "wiring": "TransformerStack with layers = 1..32 (quick) / 64 (thorough), structural",
        "contributions": "real TransformerStack / TransformerDecoder (12 configurations: layers 1-4, mult/ratio incl. range ends, dropout_p 0-0.3, default and given rule) with "
                         "probe sub-blocks: coefficient of the embedding and of every branch read off one eval-mode forward (concrete, float64)",
        "outside": "floats modelled as reals (double rounding of tau not modelled); TransformerLayer.forward's use of mhsa_tau/mlp_tau is covered under C08",
    }
    rep.assumptions = ["invariant Inv(k): e^2 = L/D_k, attn^2 = a_a^2/D_k, mlp^2 = a_m^2/D_k, D_k = L + ceil(k/2) a_a^2 + floor(k/2) a_m^2 (oracle written from the docstring)",
                       "real-valued model of Python floats"]
    rep.trusted = ["z3 nonlinear real arithmetic (nlsat + default portfolio)", "vf/sym/scalar.py operator overloading"]
    rep.sample({"harness": "step[attn]", "obligation": "tau^2 = alpha_k^2 / D_k",
                "vars": "m, r: Real in [1/16,16]; L, j: Int (relaxed), 0 <= j < L",
                "code": "transformer_residual_scaling_rule(m, r)(2*j, 2*L) executed on symbolic scalars"})


def replay(data: Dict[str, Any]) -> Tuple[bool, str]:
    if data.get("kind") == "contributions":
        return stack_contributions(*data["cfg"])
    if data.get("kind") == "wiring":
        recs = wiring(int(data["layers"]))
        v = [r for r in recs if r.get("type") == "violation"]
        return bool(v), str(v)
    md = data["model"]
    if data["harness"].startswith("unrolled"):
        n = int(data["harness"].split("=")[1].rstrip("]"))
        return _concrete_claims(float(md["m"]), float(md["r"]), n)
    return _replay(data["obligation"], md, data.get("info"))
