"""C06 - residual split/add: real residual_split / residual_add / residual_apply on symbolic tensors with an
uninterpreted differentiable branch function, against the closed form (x + tau f(x)) / sqrt(1 + tau^2)."""
from __future__ import annotations

from typing import Any, Callable, Dict, List, Optional, Tuple

import torch
import z3

from ..par import run_tasks
from ..report import Report, describe_function, lazy
from ..sym.runner import discharge
from ..sym.scalar import Ctx, SReal, approx
from ..sym.tensor import LC, Mode, Node, Session, STensor, opaque, unify
from . import funcops as fo


def branch(name: str, probes: Optional[List[LC]] = None) -> Callable[[Any], Any]:
    """An uninterpreted differentiable map t -> name(t) (fresh symbol with its own vjp); optionally records the
    gradient that arrives at its output."""

    def f(t: STensor) -> STensor:
        y = opaque(name, [t], {}, t.shape, t.meta)
        if probes is None:
            return y
        node = Node([y], lambda g: (probes.append(g), [g])[1], "probe") if (Mode.grad and y.requires_grad) else None
        return STensor(y.lc, y.shape, y.meta, node=node)

    return f


def _eq_lc(c: Ctx, name: str, got: LC, want: LC, info: Dict[str, Any]) -> None:
    pairs: List[Tuple[Any, Any]] = []
    m = unify(got, want, pairs)
    if m:
        c.oblige(name, z3.BoolVal(False), info={**info, "mismatch": m})
    else:
        c.oblige(name, z3.And([a == b for a, b in pairs]) if pairs else z3.BoolVal(True), info=info,
                 tol=z3.And([approx(a, b) for a, b in pairs]) if pairs else None)


def _oracle_layer(c: Ctx, prev: STensor, f: Callable[[Any], Any], tau: SReal, i: int) -> STensor:
    d = SReal(c.fresh(f"d{i}"))
    c.assumes += [d.z > 0, d.z * d.z == 1 + tau.z * tau.z]
    return prev * (1 / d) + f(prev) * (tau / d)


def h_stack(kind: str, depth: int, rank: int, dtype: str):
    def h(c: Ctx) -> None:
        import unit_scaling.functional as U
        mk = fo.SymMk(c)
        info = {"kind": kind, "depth": depth, "rank": rank, "dtype": dtype}
        with Session():
            taus = [c.real(f"tau{i}", 1e-3, 1e3) for i in range(depth)]
            x = mk.tensor("x", fo._lead(mk, rank), fo.DT[dtype])
            probes: List[List[LC]] = [[] for _ in range(depth)]
            fs = [branch(f"f{i}", probes[i]) for i in range(depth)]
            fo_ = [branch(f"f{i}") for i in range(depth)]
            # ---- library
            if kind == "sequential":
                y = x
                for i in range(depth):
                    r, s = U.residual_split(y, taus[i])
                    y = U.residual_add(fs[i](r), s, taus[i])
            elif kind == "apply":
                y = x
                for i in range(depth):
                    y = U.residual_apply(fs[i], y, taus[i])
            else:  # nested: layer i+1 lives inside the branch of layer i
                def lib_nested(i: int, t: STensor) -> STensor:
                    inner = fs[i](t)
                    return inner if i + 1 == depth else U.residual_apply(lambda u: lib_nested(i + 1, u), inner, taus[i + 1])
                y = U.residual_apply(lambda u: lib_nested(0, u), x, taus[0]) if depth else x
            G = STensor.leaf("G", y.shape, y.dtype)
            x.grad = None
            y.backward(G)
            gx = x.grad
            # ---- closed form, built with the engine's own arithmetic (no library code)
            xo = STensor.leaf("x", x.shape, x.dtype, requires_grad=True)
            if kind in ("sequential", "apply"):
                yo = xo
                for i in range(depth):
                    yo = _oracle_layer(c, yo, fo_[i], taus[i], i)
            else:
                def or_nested(i: int, t: STensor) -> STensor:
                    inner = fo_[i](t)
                    return inner if i + 1 == depth else _oracle_layer(c, inner, lambda u: or_nested(i + 1, u), taus[i + 1], i + 1)
                yo = _oracle_layer(c, xo, lambda u: or_nested(0, u), taus[0], 0)
            yo.backward(G)
            _eq_lc(c, "output = (x + tau f(x)) / sqrt(1 + tau^2) per layer", y.lc, yo.lc, {**info, "claim": "value"})
            _eq_lc(c, "gradient at x = derivative of that expression", gx, xo.grad, {**info, "claim": "grad"})
            if kind != "nested":
                for i in range(depth):
                    ok = len(probes[i]) == 1
                    c.oblige(f"branch {i}: upstream gradient arrives once", z3.BoolVal(ok), info={**info, "claim": "probe"})
            # gradient arriving at the last branch's output is exactly the upstream gradient
            if depth and kind != "nested" and probes[depth - 1]:
                _eq_lc(c, "innermost branch receives the unattenuated upstream gradient", probes[depth - 1][0], G.lc, {**info, "claim": "probe"})
            if depth == 1:
                cf = {t.op: co for co, t in y.lc}
                if len(y.lc) == 2:
                    a, b = y.lc[0][0], y.lc[1][0]
                    c.oblige("mixing weights: squares sum to 1", a * a + b * b == 1, info={**info, "claim": "weights"}, tol=approx(a * a + b * b, z3.RealVal(1)))
                    c.oblige("control: equal weights (must be sat)", a == b, kind="control")
            c.oblige("same shape/dtype as x", z3.BoolVal(y.dtype == x.dtype and len(y.shape) == len(x.shape)), info={**info, "claim": "shape"})
            c.oblige("x not modified", z3.BoolVal(x.version == 0), info={**info, "claim": "mod"})

    return h


# ------------------------------------------------------------------------------------------ concrete replay
def _family(i: int, n: int, gen: torch.Generator) -> Callable[[torch.Tensor], torch.Tensor]:
    W = torch.randn(n, n, generator=gen, dtype=torch.float64) / n ** 0.5
    kinds = [lambda t: t @ W, lambda t: torch.tanh(t), lambda t: torch.sin(t @ W) * 1.3, lambda t: t * t * 0.5 - t]
    return kinds[i % len(kinds)]


def replay_c06(obname: str, model: Dict[str, Any], info: Any) -> Tuple[bool, str]:
    import unit_scaling.functional as U
    kind, depth, rank = info["kind"], info["depth"], info["rank"]
    shape = tuple(int(model.get(f"b{i}", 2 + i)) for i in range(rank)) or ()
    n = shape[-1] if shape else 1
    gen = torch.Generator().manual_seed(0)
    taus = [float(model.get(f"tau{i}", 0.5)) for i in range(depth)]
    fs = [_family(i, n, gen) if shape else (lambda t: torch.tanh(t)) for i in range(depth)]
    x = torch.randn(shape, generator=gen, dtype=torch.float64, requires_grad=True)
    xo = x.detach().clone().requires_grad_(True)
    x0 = x.detach().clone()

    def lib(x: torch.Tensor) -> torch.Tensor:
        if kind == "sequential":
            y = x
            for i in range(depth):
                r, s = U.residual_split(y, taus[i])
                y = U.residual_add(fs[i](r), s, taus[i])
            return y
        if kind == "apply":
            y = x
            for i in range(depth):
                y = U.residual_apply(fs[i], y, taus[i])
            return y

        def nested(i: int, t: torch.Tensor) -> torch.Tensor:
            inner = fs[i](t)
            return inner if i + 1 == depth else U.residual_apply(lambda u: nested(i + 1, u), inner, taus[i + 1])
        return U.residual_apply(lambda u: nested(0, u), x, taus[0])

    def layer(prev: torch.Tensor, f: Callable[[torch.Tensor], torch.Tensor], tau: float) -> torch.Tensor:
        return (prev + tau * f(prev)) / (1 + tau * tau) ** 0.5

    def oracle(x: torch.Tensor) -> torch.Tensor:
        if kind in ("sequential", "apply"):
            y = x
            for i in range(depth):
                y = layer(y, fs[i], taus[i])
            return y

        def nested(i: int, t: torch.Tensor) -> torch.Tensor:
            inner = fs[i](t)
            return inner if i + 1 == depth else layer(inner, lambda u: nested(i + 1, u), taus[i + 1])
        return layer(x, lambda u: nested(0, u), taus[0])

    y, yo = lib(x), oracle(xo)
    g = torch.randn(y.shape, generator=gen, dtype=torch.float64)
    (gx,) = torch.autograd.grad(y, x, g)
    (gxo,) = torch.autograd.grad(yo, xo, g)
    bad = []
    if not torch.allclose(y, yo, rtol=1e-9, atol=1e-12):
        bad.append(f"output differs from the closed form (max abs err {(y - yo).abs().max().item():.3g})")
    if not torch.allclose(gx, gxo, rtol=1e-9, atol=1e-12):
        bad.append(f"gradient at x differs from the derivative of the closed form (max abs err {(gx - gxo).abs().max().item():.3g})")
    if not torch.equal(x.detach(), x0):
        bad.append("x modified")
    return bool(bad), f"{kind} depth={depth} shape={shape} taus={taus}: " + "; ".join(bad or ["matches closed form"])


# ------------------------------------------------------------------------------------------ plain-data input, trainable branch
def h_plain_input(kind: str):
    """x is plain data (requires_grad = False, e.g. the first layer of a model) and the branch holds a trainable parameter: the branch must still
    see the upstream gradient unattenuated, and residual_apply must give the parameter the gradient the split / f / add sequence gives it."""
    def h(c: Ctx) -> None:
        import unit_scaling.functional as U
        mk = fo.SymMk(c)
        info = {"kind": kind, "plain_input": True}
        with Session():
            tau = c.real("tau0", 1e-3, 1e3)
            x = STensor.leaf("x", tuple(fo._lead(mk, 2)), torch.float32, requires_grad=False)
            w = STensor.leaf("w", x.shape, torch.float32, requires_grad=True)
            probes: List[LC] = []

            def f(t: STensor) -> STensor:
                y_ = opaque("fw", [t, w], {}, t.shape, t.meta)
                node = Node([y_], lambda g: (probes.append(g), [g])[1], "probe") if (Mode.grad and y_.requires_grad) else None
                return STensor(y_.lc, y_.shape, y_.meta, node=node)

            def run(which: str) -> Tuple[STensor, Any]:
                w.grad = None
                if which == "apply":
                    y = U.residual_apply(f, x, tau)
                else:
                    r, sk = U.residual_split(x, tau)
                    y = U.residual_add(f(r), sk, tau)
                G = STensor.leaf("G", y.shape, y.dtype)
                y.backward(G)
                return y, w.grad

            probes.clear()
            y, gw = run(kind)
            seen = list(probes)
            G = STensor.leaf("G", y.shape, y.dtype)
            c.oblige("branch: upstream gradient arrives once", z3.BoolVal(len(seen) == 1), info={**info, "claim": "probe"})
            if seen:
                _eq_lc(c, "branch receives the unattenuated upstream gradient (plain-data input)", seen[0], G.lc, {**info, "claim": "probe"})
            other = "split-add" if kind == "apply" else "apply"
            probes.clear()
            y2, gw2 = run(other)
            _eq_lc(c, "residual_apply = split / f / add: same output", y.lc, y2.lc, {**info, "claim": "value"})
            if gw is None or gw2 is None:
                c.oblige("residual_apply = split / f / add: same gradient of the branch parameter", z3.BoolVal(gw is None and gw2 is None), info={**info, "claim": "grad"})
            else:
                _eq_lc(c, "residual_apply = split / f / add: same gradient of the branch parameter", gw, gw2, {**info, "claim": "grad"})
            c.oblige("x not modified", z3.BoolVal(x.version == 0), info={**info, "claim": "mod"})

    return h


def replay_plain_input(obname: str, model: Dict[str, Any], info: Any) -> Tuple[bool, str]:
    import unit_scaling.functional as U
    tau = float(model.get("tau0", 0.5))
    gen = torch.Generator().manual_seed(0)
    x = torch.randn(3, 4, generator=gen, dtype=torch.float64)
    lin = torch.nn.Linear(4, 4).double()
    g = torch.randn(3, 4, generator=gen, dtype=torch.float64)
    seen: List[torch.Tensor] = []

    def f(t: torch.Tensor) -> torch.Tensor:
        out = torch.tanh(lin(t))
        out.register_hook(lambda gr: seen.append(gr.clone()))
        return out

    res = {}
    for which in ("apply", "split-add"):
        lin.zero_grad()
        seen.clear()
        x0 = x.clone()
        if which == "apply":
            y = U.residual_apply(f, x0, tau)
        else:
            r, sk = U.residual_split(x0, tau)
            y = U.residual_add(f(r), sk, tau)
        y.backward(g)
        res[which] = (y.detach().clone(), lin.weight.grad.clone(), [s_.clone() for s_ in seen], x0)
    bad = []
    if not torch.allclose(res["apply"][0], res["split-add"][0], rtol=1e-12, atol=1e-14):
        bad.append("outputs differ")
    if not torch.allclose(res["apply"][1], res["split-add"][1], rtol=1e-9, atol=1e-14):
        bad.append(f"gradient of the branch parameter differs (ratio {float((res['apply'][1] * res['split-add'][1]).sum() / (res['split-add'][1] ** 2).sum()):.6g})")
    for which in res:
        if len(res[which][2]) != 1 or not torch.allclose(res[which][2][0], g, rtol=1e-12, atol=0):
            bad.append(f"{which}: gradient inside the branch is not the upstream gradient")
        if not torch.equal(res[which][3], x):
            bad.append(f"{which}: x modified")
    return bool(bad), f"plain-data x, trainable branch, tau={tau}: " + "; ".join(bad or ["apply = split/f/add, branch sees the upstream gradient"])


def task_plain_input(kind: str, timeout: float) -> List[Dict[str, Any]]:
    torch.set_num_threads(1)
    return discharge("C06", f"{kind}[plain-data input, trainable branch]", h_plain_input(kind), replay_plain_input, timeout,
                     base_info={"kind": kind, "plain_input": True})


HISTORY_DTYPES = ("bfloat16", "float16", "float32", "float64")


def h_dtype_history(kind: str):
    """One process, one concrete tau, the same residual layer applied to tensors of increasing precision: every layer must
    still satisfy the closed form, and no scale factor prepared for an earlier (lower-precision) call may reach a later gradient."""
    def h(c: Ctx) -> None:
        import unit_scaling.functional as U
        mk = fo.SymMk(c)
        tau = 0.3
        with Session():
            for dt in HISTORY_DTYPES:
                info = {"kind": kind, "history": True, "dtype": dt}
                x = mk.tensor(f"x_{dt}", fo._lead(mk, 2), fo.DT[dt])
                f = branch(f"f_{dt}")
                if kind == "apply":
                    y = U.residual_apply(f, x, tau)
                else:
                    r, sk = U.residual_split(x, tau)
                    y = U.residual_add(f(r), sk, tau)
                d = (1 + tau * tau) ** 0.5
                xo = STensor(x.lc, x.shape, x.meta, requires_grad=True)
                yo = xo * (1 / d) + f(xo) * (tau / d)
                _eq_lc(c, f"{dt} after lower precisions: output = (x + tau f(x)) / sqrt(1 + tau^2)", y.lc, yo.lc, info)
                G = STensor.leaf(f"G_{dt}", y.shape, y.dtype)
                x.grad = None
                y.backward(G)
                yo.backward(G)
                _eq_lc(c, f"{dt} after lower precisions: gradient at x = derivative of that expression", x.grad, xo.grad, info)
            ev = list(Mode.events)
            c.oblige("every scale factor is carried in the precision of the tensor it multiplies (no factor prepared for an earlier, lower-precision call is reused)",
                     z3.BoolVal(not ev), info={"kind": kind, "history": True, "mismatch": "; ".join(sorted(set(ev)))})

    return h


def replay_history(obname: str, model: Dict[str, Any], info: Any) -> Tuple[bool, str]:
    import unit_scaling.functional as U
    kind, tau = info["kind"], 0.3
    gen = torch.Generator().manual_seed(0)
    W = torch.randn(5, 5, generator=gen, dtype=torch.float64)
    worst = {}
    for dt in HISTORY_DTYPES:
        dtype = fo.DT[dt]
        x = torch.randn(4, 5, generator=gen, dtype=torch.float64).to(dtype).requires_grad_(True)
        w = W.to(dtype)
        f = lambda t: torch.tanh(t @ w)  # noqa: E731
        if kind == "apply":
            y = U.residual_apply(f, x, tau)
        else:
            r, sk = U.residual_split(x, tau)
            y = U.residual_add(f(r), sk, tau)
        g = torch.randn(y.shape, generator=gen, dtype=torch.float64).to(dtype)
        (gx,) = torch.autograd.grad(y, x, g)
        # reference in float64 on the same (already rounded) data
        xo = x.detach().double().requires_grad_(True)
        yo = (xo + tau * torch.tanh(xo @ w.double())) / (1 + tau * tau) ** 0.5
        (gxo,) = torch.autograd.grad(yo, xo, g.double())
        worst[dt] = ((gx.double() - gxo).abs().max() / gxo.abs().max()).item()
    # the float64 call must be exact to float64 rounding, the float32 call to float32 rounding
    bad = [f"{dt}: relative gradient error {worst[dt]:.3g}" for dt, lim in (("float64", 1e-12), ("float32", 2e-5)) if worst[dt] > lim]
    return bool(bad), f"{kind}, tau={tau}, dtypes in the order {HISTORY_DTYPES}: " + "; ".join(bad or [f"gradients exact to their own precision ({worst})"])


def task_history(kind: str, timeout: float) -> List[Dict[str, Any]]:
    torch.set_num_threads(1)
    return discharge("C06", f"{kind}[dtype history]", h_dtype_history(kind), replay_history, timeout, base_info={"kind": kind, "history": True})


def task(kind: str, depth: int, rank: int, dtype: str, timeout: float) -> List[Dict[str, Any]]:
    torch.set_num_threads(1)
    return discharge("C06", f"{kind}[depth={depth},rank={rank},{dtype}]", h_stack(kind, depth, rank, dtype), replay_c06, timeout)


def run(rep: Report, only: str = "") -> None:
    import unit_scaling.functional as U
    thorough = rep.tier == "thorough"
    timeout = 300 if thorough else 60
    depths = range(1, 5) if thorough else (1, 2, 3)  # depth 5+ : z3 does not finish within 10 min per stack (measured) - not claimed
    tasks = []
    for kind in ("sequential", "apply", "nested"):
        for d in depths:
            if kind == "nested" and d > (3 if thorough else 2):
                continue
            for rank, dt in (((0, "float64"), (1, "float32"), (2, "bfloat16"), (3, "float16")) if (thorough and d <= 2) else ((2, "float32"),)):
                tasks.append((task, (kind, d, rank, dt, timeout)))
    tasks += [(task_history, ("split-add", timeout)), (task_history, ("apply", timeout))]
    tasks += [(task_plain_input, ("apply", timeout)), (task_plain_input, ("split-add", timeout))]
    if only:
        tasks = [t for t in tasks if only in repr(t[1])]
    tasks.sort(key=lambda t: -t[1][1] if isinstance(t[1][1], int) else 0)
    rep.extend(run_tasks(tasks))
    rep.functions = [describe_function(f) for f in (lazy(lambda: U.residual_split), lazy(lambda: U.residual_add), lazy(lambda: U.residual_apply))] + fo.encoded_functions()[-4:]
    rep.bounds = {"tau": "[1e-3, 1e3] per layer (symbolic reals)", "x": "any shape (symbolic dims), any values",
                  "branch": "uninterpreted differentiable map with its own vjp symbol: the result holds for every branch function at once",
                  "stacks": f"sequential (split/f/add and residual_apply) depth {list(depths)}, nested depth <= {4 if thorough else 2}",
                  "dtype history": "one concrete tau (0.3), the same layer on bfloat16, float16, float32, float64 tensors in that order in one process: closed form per call + "
                                   "no scalar tensor of lower precision than the tensor it multiplies",
                  "outside": "floats as reals"}
    rep.assumptions = ["closed form built with the engine's own tensor arithmetic and differentiated by the mini-autograd (torch.autograd's accumulation contract)"]
    rep.trusted = ["z3 NRA portfolio", "vf/sym/tensor.py"]
    rep.sample({"harness": "sequential[depth=2,rank=2,float32]", "obligation": "gradient at x = derivative of that expression"})


def replay(data: Dict[str, Any]) -> Tuple[bool, str]:
    if (data.get("info") or {}).get("plain_input"):
        return replay_plain_input(data["obligation"], data["model"], data.get("info") or {})
    if (data.get("info") or {}).get("history"):
        return replay_history(data["obligation"], data["model"], data.get("info") or {})
    return replay_c06(data["obligation"], data["model"], data.get("info") or {})
