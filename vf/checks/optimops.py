"""Shared harness for C10 / C11: the real unit_scaling.optim code on parameters with symbolic shapes, tags,
depth and learning rates."""
from __future__ import annotations

import copy
import itertools
from typing import Any, Callable, Dict, List, Optional, Sequence, Tuple

import torch
import z3

from ..report import describe_function, lazy
from ..sym.runner import discharge
from ..sym.scalar import Ctx, SInt, SReal, _sreal, approx
from ..sym.tensor import Session, STensor

TAGS = ["weight", "bias", "norm", "output"]


class SDepth(int):
    """Symbolic depth that passes `isinstance(x, int)` in has_parameter_data: every arithmetic operator is
    redirected to the symbolic value (the concrete int payload is the sample value and is never used by the
    code under test: lr_scale_for_depth only computes depth ** -0.5)."""

    def __new__(cls, sym: SInt, sample: int) -> "SDepth":
        o = int.__new__(cls, sample)
        o.sym = sym  # type: ignore[attr-defined]
        return o

    def __pow__(self, p: Any, m: Any = None) -> Any:
        return self.sym ** p  # type: ignore[attr-defined]

    def __rpow__(self, b: Any, m: Any = None) -> Any:
        raise NotImplementedError

    def __mul__(self, o: Any) -> Any:
        return self.sym * o  # type: ignore[attr-defined]

    __rmul__ = __mul__

    def __truediv__(self, o: Any) -> Any:
        return self.sym / o  # type: ignore[attr-defined]

    def __rtruediv__(self, o: Any) -> Any:
        return o / self.sym  # type: ignore[attr-defined]

    def __add__(self, o: Any) -> Any:
        return self.sym + o  # type: ignore[attr-defined]

    __radd__ = __add__

    def __sub__(self, o: Any) -> Any:
        return self.sym - o  # type: ignore[attr-defined]

    def __float__(self) -> float:
        raise TypeError("symbolic depth -> float")

    def __eq__(self, o: Any) -> Any:  # type: ignore[override]
        return self.sym == o  # type: ignore[attr-defined]

    def __hash__(self) -> int:
        return int.__hash__(self)


def sym_param(c: Ctx, name: str, rank: int, tag: Any, depth: Any) -> STensor:
    dims = tuple(c.dim(f"{name}_d{i}", 1, 4096, sample=2 + i) for i in range(rank))
    p = STensor.leaf(name, dims, torch.float32, requires_grad=True)
    if tag != "<missing>":
        p.mup_type = tag  # type: ignore[attr-defined]
        if depth == "none":
            p.mup_scaling_depth = None  # type: ignore[attr-defined]
        elif depth == "sym":
            d = c.dim(f"{name}_depth", 1, 1024, sample=7)
            p.mup_scaling_depth = SDepth(d, 7)  # type: ignore[attr-defined]
        elif depth == "one":
            # the boundary depth as a plain Python int: a symbolic depth is an int *subclass*, so a library test such as
            # `type(d) is int` or `d > 1` at the edge is only exercised by a genuine int (1/sqrt(1) = 1: the factor is the undepthed one)
            p.mup_scaling_depth = 1  # type: ignore[attr-defined]
        elif depth == "bad":
            p.mup_scaling_depth = "three"  # type: ignore[attr-defined]
    return p


def oracle_factor(p: STensor, kind: str) -> Any:
    """The u-muP factor of the property statement, written independently of the library (z3 term)."""
    c = Ctx.cur
    if not hasattr(p, "mup_type"):
        return z3.RealVal(1)  # untagged parameter, explicitly allowed: left unscaled
    tag = p.mup_type  # type: ignore[attr-defined]
    sh = p.shape
    if len(sh) == 1:
        fan_in = _sreal(sh[0]).z
    elif len(sh) == 2:
        fan_in = _sreal(sh[1]).z
    else:
        fan_in = _sreal(sh[1]).z * _sreal(sh[2]).z
    r = c.fresh("sqrt_fan_in")
    c.assumes += [r > 0, r * r == fan_in]
    if kind == "adam":  # also SGD with an unconstrained readout
        f = 1 / r if tag == "weight" else z3.RealVal(1)
    else:
        f = r if tag == "weight" else (_sreal(sh[0]).z if tag in ("bias", "norm") else z3.RealVal(1))
    d = p.mup_scaling_depth  # type: ignore[attr-defined]
    if d is not None:
        rd = c.fresh("sqrt_depth")
        c.assumes += [rd > 0, rd * rd == _sreal(d.sym if hasattr(d, "sym") else int(d)).z]
        f = f / rd
    return f


def c_oracle_factor(shape: Sequence[int], tag: str, depth: Optional[int], kind: str) -> float:
    fan_in = shape[0] if len(shape) == 1 else shape[1] if len(shape) == 2 else shape[1] * shape[2]
    if kind == "adam":
        f = fan_in ** -0.5 if tag == "weight" else 1.0
    else:
        f = fan_in ** 0.5 if tag == "weight" else (float(shape[0]) if tag in ("bias", "norm") else 1.0)
    return f * (depth ** -0.5 if depth else 1.0)


def lr_value(x: Any) -> Any:
    if isinstance(x, STensor):
        return x.const.z
    return _sreal(x).z


# ---------------------------------------------------------------------------------------------- configurations
# several parameters of the same tag and rank whose (symbolic, independent) shapes may coincide while their depths differ: a rule evaluated
# once per "kind" of parameter (a memo keyed without the depth, or without the shape) is refuted by the model the solver picks
SAME_KIND: List[List[Tuple[int, str, str]]] = [[(2, "weight", "sym"), (2, "weight", "none"), (2, "weight", "sym")],
                                               [(1, "norm", "one"), (1, "norm", "sym"), (3, "weight", "none"), (3, "weight", "sym")],
                                               [(2, "output", "sym"), (1, "bias", "sym"), (2, "output", "one"), (1, "bias", "none")]]


def param_sets(tier: str) -> List[List[Tuple[int, str, str]]]:
    th = tier == "thorough"
    combos = [(r, t, d) for r in (1, 2, 3) for t in TAGS for d in ("none", "sym")]
    if th:
        return [combos[i:i + 3] for i in range(0, len(combos), 3)] + [[(2, "weight", "sym"), (1, "bias", "sym"), (2, "output", "none")],
                                                                      [(3, "weight", "none"), (1, "norm", "sym")], [(1, "weight", "sym")],
                                                                      [(2, "weight", "one"), (1, "bias", "one"), (2, "output", "one")],
                                                                      [(1, "norm", "one"), (3, "weight", "one"), (1, "weight", "one")]] + SAME_KIND
    return [[(2, "weight", "sym"), (1, "bias", "none"), (2, "output", "none")], [(3, "weight", "none"), (1, "norm", "sym"), (1, "weight", "none")],
            [(2, "bias", "sym"), (3, "output", "sym"), (2, "norm", "none")], [(1, "output", "none"), (3, "bias", "none"), (3, "norm", "sym")],
            [(2, "weight", "one"), (1, "bias", "one"), (2, "output", "one")], [(1, "norm", "one"), (3, "weight", "one")]] + SAME_KIND


def configs(tier: str) -> List[Dict[str, Any]]:
    th = tier == "thorough"
    out = []
    structures = ["bare", "generator", "groups_own_lr", "groups_generator", "groups_no_lr", "mixed", "plain_in_group"]
    apis = ["scaled_adam", "scaled_sgd_none", "scaled_sgd_out", "Adam", "AdamW", "SGD_none", "SGD_out"]
    psets = param_sets(tier)
    i = 0
    for api in apis:
        for st in structures:
            for lrk in ("float", "tensor"):
                for iwd in (True, False):
                    if not th and (i % 3) and api.startswith("scaled") is False and st in ("generator", "mixed"):
                        i += 1
                        continue
                    out.append({"api": api, "structure": st, "lr": lrk, "independent_wd": iwd, "params": psets[i % len(psets)]})
                    i += 1
    return out


def cfg_name(cfg: Dict[str, Any]) -> str:
    ps = "+".join(f"{t}{r}{'d' if d == 'sym' else 'd1' if d == 'one' else ''}" for r, t, d in cfg["params"])
    return f"{cfg['api']}[{cfg['structure']},lr={cfg['lr']},iwd={cfg['independent_wd']},{ps}]"


class Recorder(Exception):
    pass


def _call_api(cfg: Dict[str, Any], params_arg: Any, lr: Any, wd: Any, allow: bool = False) -> List[Dict[str, Any]]:
    """Calls the real library entry point and returns the parameter groups handed to torch."""
    import unit_scaling.optim as uo
    api = cfg["api"]
    kw = dict(weight_decay=wd, independent_weight_decay=cfg["independent_wd"], allow_non_unit_scaling_params=allow)
    if api == "scaled_adam":
        return list(uo.scaled_parameters(params_arg, uo.lr_scale_func_adam, lr=lr, **kw))
    if api == "scaled_sgd_none":
        return list(uo.scaled_parameters(params_arg, uo.lr_scale_func_sgd(None), lr=lr, **kw))
    if api == "scaled_sgd_out":
        return list(uo.scaled_parameters(params_arg, uo.lr_scale_func_sgd("to_output_scale"), lr=lr, **kw))
    cls = {"Adam": uo.Adam, "AdamW": uo.AdamW, "SGD_none": uo.SGD, "SGD_out": uo.SGD}[api]
    base = cls.__mro__[1]
    got: List[Any] = []
    orig = base.__init__

    def rec(self: Any, params: Any, *a: Any, **k: Any) -> None:
        got.append((list(params), a, k))

    base.__init__ = rec  # type: ignore[method-assign]
    try:
        if api.startswith("SGD"):
            kw["readout_constraint"] = None if api == "SGD_none" else "to_output_scale"
        if lr is None:
            cls(params_arg, **kw)
        else:
            cls(params_arg, lr, **kw)
    finally:
        base.__init__ = orig  # type: ignore[method-assign]
    return got[0][0]


def kind_of(api: str) -> str:
    return "sgd_out" if api in ("scaled_sgd_out", "SGD_out") else "adam"


def build(cfg: Dict[str, Any], mkparam: Callable[[str, int, str, str], Any], mklr: Callable[[str], Any],
          mkwd: Callable[[str], Any]) -> Tuple[Any, List[Any], List[Dict[str, Any]], Any, Any, List[Tuple[Any, Any, Any]]]:
    """params argument in the configured structure.  Returns (params_arg, flat params, source groups,
    global lr, global wd, expected [(param, source lr, source wd)])."""
    ps = [mkparam(f"p{i}", r, t, d) for i, (r, t, d) in enumerate(cfg["params"])]
    glr, gwd = mklr("lr"), mkwd("wd")
    st = cfg["structure"]
    groups: List[Dict[str, Any]] = []
    exp: List[Tuple[Any, Any, Any]] = []
    if st == "bare":
        arg: Any = list(ps)
        exp = [(p, glr, gwd) for p in ps]
    elif st == "generator":
        arg = (p for p in ps)
        exp = [(p, glr, gwd) for p in ps]
    elif st == "groups_own_lr":
        g0 = {"params": ps[:1], "lr": mklr("lr0"), "weight_decay": mkwd("wd0"), "betas": (0.8, 0.9), "tag_obj": object()}
        g1 = {"params": ps[1:], "lr": mklr("lr1"), "eps": 1e-7}
        groups = [g0, g1]
        arg = groups
        exp = [(ps[0], g0["lr"], g0["weight_decay"])] + [(p, g1["lr"], gwd) for p in ps[1:]]
    elif st == "groups_generator":  # a one-shot iterator of groups that all carry their lr, and no global lr at all
        g0 = {"params": ps[:1], "lr": mklr("lr0"), "weight_decay": mkwd("wd0"), "betas": (0.7, 0.9)}
        g1 = {"params": tuple(ps[1:]), "lr": mklr("lr1"), "eps": 1e-6}
        groups = [g0, g1]
        arg = (g for g in groups)
        exp = [(ps[0], g0["lr"], g0["weight_decay"])] + [(p, g1["lr"], gwd) for p in ps[1:]]
        glr = None
    elif st == "groups_no_lr":
        g0 = {"params": ps[:2], "momentum": 0.9}
        g1 = {"params": ps[2:], "weight_decay": mkwd("wd1")}
        groups = [g0, g1]
        arg = groups
        exp = [(p, glr, gwd) for p in ps[:2]] + [(p, glr, g1["weight_decay"]) for p in ps[2:]]
    elif st == "plain_in_group":  # allow_non_unit_scaling_params=True: a plain nn.Parameter between tagged ones, in one group
        plain = mkparam("plain", 2, "<missing>", "none")
        ps = ps[:1] + [plain] + ps[1:]
        g0 = {"params": list(ps), "momentum": 0.5}
        groups = [g0]
        arg = groups
        exp = [(p, glr, gwd) for p in ps]
    else:  # mixed: a bare parameter between groups
        g0 = {"params": ps[:1], "lr": mklr("lr0")}
        groups = [g0]
        arg = [g0] + list(ps[1:])
        exp = [(ps[0], g0["lr"], gwd)] + [(p, glr, gwd) for p in ps[1:]]
    return arg, ps, groups, glr, gwd, exp


# ---------------------------------------------------------------------------------------------- symbolic harness
def harness(cfg: Dict[str, Any], props: Sequence[str]) -> Callable[[Ctx], None]:
    def h(c: Ctx) -> None:
        info = {"cfg": cfg}
        with Session():
            def mkparam(name: str, r: int, t: str, d: str) -> Any:
                return sym_param(c, name, r, t, d)

            def mklr(name: str) -> Any:
                v = c.real(name, 1e-8, 1e2)
                return STensor.scalar(v) if cfg["lr"] == "tensor" else v

            def mkwd(name: str) -> Any:
                return c.real(name, 0, 0.5)

            arg, ps, groups, glr, gwd, exp = build(cfg, mkparam, mklr, mkwd)
            snap = [dict(g) for g in groups]
            snap_params = [list(g["params"]) for g in groups]
            lr_objs = [x for x in [glr] + [g.get("lr") for g in groups] if isinstance(x, STensor)]
            lr_vals = [x.const.z for x in lr_objs]
            out = _call_api(cfg, arg, glr, gwd, allow=(cfg["structure"] == "plain_in_group"))
            kind = kind_of(cfg["api"])
            if "C10" in props:
                c.oblige("one group per parameter", z3.BoolVal(len(out) == len(exp)), info={**info, "claim": "count"})
                for i, ((p, slr, swd), g) in enumerate(zip(exp, out)):
                    f = oracle_factor(p, kind)
                    got = lr_value(g["lr"])
                    want = lr_value(slr) * f
                    c.oblige(f"lr[{i}:{getattr(p, 'mup_type', 'untagged')}/{len(p.shape)}d] = source lr * u-muP factor", got == want,
                             info={**info, "claim": "lr", "index": i}, tol=approx(got, want))
                    c.oblige(f"lr[{i}] has the caller's kind (float/tensor)", z3.BoolVal(isinstance(g["lr"], STensor) == (cfg["lr"] == "tensor")),
                             info={**info, "claim": "lrkind", "index": i})
                if len(exp) >= 1 and getattr(exp[0][0], "mup_type", None) == "weight":
                    c.oblige("control: weight lr unscaled (must be sat)", lr_value(out[0]["lr"]) == lr_value(exp[0][1]), kind="control")
            if "C11" in props:
                ok_order = len(out) == len(exp) and all(len(g["params"]) == 1 and g["params"][0] is p for g, (p, _, _) in zip(out, exp))
                c.oblige("every parameter exactly once, in order, one per group", z3.BoolVal(ok_order), info={**info, "claim": "order"})
                # extra keys carried over (same objects)
                ok_extra = True
                for g, (p, _, _) in zip(out, exp):
                    src = next((s for s, sp in zip(snap, snap_params) if any(q is p for q in sp)), None)
                    want_keys = {k: v for k, v in (src or {}).items() if k not in ("params", "lr", "weight_decay")}
                    got_keys = {k: v for k, v in g.items() if k not in ("params", "lr", "weight_decay")}
                    if set(want_keys) != set(got_keys) or any(got_keys[k] is not want_keys[k] for k in want_keys):
                        ok_extra = False
                c.oblige("other options of the source group carried over", z3.BoolVal(ok_extra), info={**info, "claim": "extra"})
                same = all(set(g) == set(s) and all(g[k] is s[k] for k in s if k != "params") and
                           len(g["params"]) == len(sp) and all(a is b for a, b in zip(g["params"], sp))
                           for g, s, sp in zip(groups, snap, snap_params))
                c.oblige("caller's groups unchanged", z3.BoolVal(same), info={**info, "claim": "callergroups"})
                c.oblige("caller's lr tensors not written", z3.BoolVal(all(x.version == 0 for x in lr_objs)), info={**info, "claim": "lrversion"})
                for x, v in zip(lr_objs, lr_vals):
                    c.oblige("caller's lr tensor keeps its value", x.const.z == v, info={**info, "claim": "lrvalue"})
                # "a shared tensor learning rate is not aliased between SCALED groups": groups of explicitly allowed untagged
                # parameters are left unscaled and keep the caller's tensor (observed, outside the property's wording)
                outs_lr = [g["lr"] for g in out if isinstance(g["lr"], STensor) and hasattr(g["params"][0], "mup_type")]
                alias = any(a is b for a, b in itertools.combinations(outs_lr, 2)) or any(a is b for a in outs_lr for b in lr_objs)
                c.oblige("no lr tensor aliased between scaled groups or with the caller's", z3.BoolVal(not alias), info={**info, "claim": "alias"})
                for i, ((p, slr, swd), g) in enumerate(zip(exp, out)):
                    lo, wo, wi = lr_value(g["lr"]), lr_value(g["weight_decay"]), lr_value(swd)
                    if cfg["independent_wd"]:
                        c.oblige(f"wd[{i}]: lr * weight_decay = requested decay", lo * wo == wi, info={**info, "claim": "wd", "index": i}, tol=approx(lo * wo, wi))
                        # documented one-step update with zero gradient: p' = p (1 - lr*wd)  ==  p (1 - requested)
                        c.oblige(f"wd[{i}]: zero-gradient step multiplies p by (1 - weight_decay)", (1 - lo * wo) == (1 - wi),
                                 info={**info, "claim": "wd", "index": i}, tol=approx(1 - lo * wo, 1 - wi))
                    else:
                        c.oblige(f"wd[{i}]: passed through unchanged", wo == wi, info={**info, "claim": "wd", "index": i})
                if cfg["independent_wd"] and exp:
                    c.oblige("control: weight decay passed through (must be sat)", lr_value(out[0]["weight_decay"]) == lr_value(exp[0][2]), kind="control")

    return h


# ---------------------------------------------------------------------------------------------- concrete replay
def concrete_run(cfg: Dict[str, Any], model: Dict[str, Any], steps: int = 0) -> Dict[str, Any]:
    import unit_scaling as uu
    import unit_scaling.optim as uo

    def mkparam(name: str, r: int, t: str, d: str) -> Any:
        shape = tuple(min(int(model.get(f"{name}_d{i}", 2 + i)), 64) for i in range(r))
        depth = int(model.get(f"{name}_depth", 7)) if d == "sym" else (1 if d == "one" else None)
        if t == "<missing>":
            return torch.nn.Parameter(torch.ones(shape, dtype=torch.float64))
        return uu.Parameter(torch.ones(shape, dtype=torch.float64), t, depth)

    def mklr(name: str) -> Any:
        v = float(model.get(name, 0.1))
        return torch.tensor(v, dtype=torch.float64) if cfg["lr"] == "tensor" else v

    def mkwd(name: str) -> Any:
        return float(model.get(name, 0.1))

    arg, ps, groups, glr, gwd, exp = build(cfg, mkparam, mklr, mkwd)
    snap = copy.copy([dict(g) for g in groups])
    lr_objs = [x for x in [glr] + [g.get("lr") for g in groups] if isinstance(x, torch.Tensor)]
    lr_before = [float(x) for x in lr_objs]
    out = _call_api(cfg, arg, glr, gwd, allow=(cfg["structure"] == "plain_in_group"))
    res: Dict[str, Any] = {"out": out, "exp": exp, "groups": groups, "snap": snap, "lr_objs": lr_objs, "lr_before": lr_before, "ps": ps}
    return res


def replay_optim(obname: str, model: Dict[str, Any], info: Any) -> Tuple[bool, str]:
    cfg = info["cfg"]
    cfg = {**cfg, "params": [tuple(p) for p in cfg["params"]]}
    claim = info.get("claim")
    try:
        r = concrete_run(cfg, model)
    except Exception as e:
        return True, f"{cfg_name(cfg)} at {model}: raises {type(e).__name__}: {e}"
    out, exp = r["out"], r["exp"]
    kind = kind_of(cfg["api"])
    where = f"{cfg_name(cfg)} at {model}"
    if claim in ("count", "order"):
        ok = len(out) == len(exp) and all(len(g["params"]) == 1 and g["params"][0] is p for g, (p, _, _) in zip(out, exp))
        return not ok, f"{where}: groups {[tuple(g['params'][0].shape) for g in out]}"
    if claim == "lr":
        i = info["index"]
        p, slr, swd = exp[i]
        tagged = hasattr(p, "mup_type")
        want = float(slr) * (c_oracle_factor(tuple(p.shape), p.mup_type, p.mup_scaling_depth, kind) if tagged else 1.0)
        got = float(out[i]["lr"])
        return abs(got - want) > 1e-6 * abs(want), f"{where}: group {i} ({getattr(p, 'mup_type', 'untagged')}, shape {tuple(p.shape)}) lr={got!r}, rule gives {want!r}"
    if claim == "lrkind":
        i = info["index"]
        return isinstance(out[i]["lr"], torch.Tensor) != (cfg["lr"] == "tensor"), f"{where}: lr type {type(out[i]['lr'])}"
    if claim == "extra":
        bad = []
        for g, (p, _, _) in zip(out, exp):
            src = next((s for s in r["snap"] if any(q is p for q in s["params"])), {})
            for k, v in src.items():
                if k not in ("params", "lr", "weight_decay") and (k not in g or g[k] is not v):
                    bad.append(k)
            for k in g:
                if k not in ("params", "lr", "weight_decay") and k not in src:
                    bad.append("+" + k)
        return bool(bad), f"{where}: option keys lost/changed/added: {bad}"
    if claim == "callergroups":
        bad = [i for i, (g, s) in enumerate(zip(r["groups"], r["snap"])) if set(g) != set(s) or any(g[k] is not s[k] for k in s)]
        return bool(bad), f"{where}: caller groups {bad} were altered"
    if claim in ("lrversion", "lrvalue"):
        now = [float(x) for x in r["lr_objs"]]
        return now != r["lr_before"], f"{where}: caller lr tensors {r['lr_before']} -> {now}"
    if claim == "alias":
        outs = [g["lr"] for g in out if isinstance(g["lr"], torch.Tensor) and hasattr(g["params"][0], "mup_type")]
        alias = any(a is b or a.data_ptr() == b.data_ptr() for a, b in itertools.combinations(outs, 2)) or \
            any(a is b or a.data_ptr() == b.data_ptr() for a in outs for b in r["lr_objs"])
        return alias, f"{where}: lr tensor aliasing={alias}"
    if claim == "wd":
        i = info["index"]
        p, slr, swd = exp[i]
        lo, wo = float(out[i]["lr"]), float(out[i]["weight_decay"])
        if cfg["independent_wd"]:
            return abs(lo * wo - float(swd)) > 1e-9 * max(abs(float(swd)), 1e-30), f"{where}: group {i}: lr*wd={lo * wo!r}, requested {float(swd)!r}"
        return wo != float(swd), f"{where}: group {i}: wd={wo!r}, requested {float(swd)!r}"
    return False, f"{where}: unknown claim {claim}"


def run_config(pid: str, cfg: Dict[str, Any], props: Sequence[str], timeout: float) -> List[Dict[str, Any]]:
    torch.set_num_threads(1)
    return discharge(pid, cfg_name(cfg), harness(cfg, props), replay_optim, timeout, base_info={"cfg": cfg})


def encoded_functions() -> List[str]:
    import unit_scaling.optim as uo
    import unit_scaling.parameter as up
    return [describe_function(f) for f in (lazy(lambda: uo.scaled_parameters), lazy(lambda: uo.lr_scale_func_adam), lazy(lambda: uo.lr_scale_func_sgd), lazy(lambda: uo.lr_scale_for_depth),
                                           lazy(lambda: uo._get_fan_in), lazy(lambda: uo.SGD.__init__), lazy(lambda: uo.Adam.__init__), lazy(lambda: uo.AdamW.__init__), lazy(lambda: up.has_parameter_data))]
