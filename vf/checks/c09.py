"""C09 - u-muP parameter tags survive any history: one inductive step of the real hook functions from an arbitrary
valid parameter state (symbolic tag selector and depth, path forking), plus an enumeration of short real histories."""
from __future__ import annotations

import copy
import io
import itertools
import pickle
from typing import Any, Callable, Dict, List, Optional, Tuple

import torch
import z3
from torch import nn

from ..par import run_tasks
from ..report import CONCRETE, INCONCLUSIVE, Report, describe_function, lazy
from ..sym.runner import discharge
from ..sym.scalar import Ctx, SBool, SInt, SReal, _sreal
from ..sym.tensor import Session
from .optimops import SDepth

TAGS = ["weight", "bias", "norm", "output"]
_REG: Dict[str, Any] = {}


class SymTag:
    """A tag that is one of the four valid strings, selected by a solver variable: comparisons fork the path."""

    def __init__(self, key: str):
        self.key = key

    @property
    def sel(self) -> Any:
        return _REG[self.key]

    def __eq__(self, o: Any) -> Any:  # type: ignore[override]
        if isinstance(o, SymTag):
            return o.key == self.key
        if isinstance(o, str):
            return SBool(self.sel == TAGS.index(o)) if o in TAGS else False
        return False

    def __ne__(self, o: Any) -> Any:  # type: ignore[override]
        r = self.__eq__(o)
        return (~r) if isinstance(r, SBool) else (not r)

    def __hash__(self) -> int:
        return hash(self.key)

    def __reduce__(self) -> Any:
        return (SymTag, (self.key,))

    def __repr__(self) -> str:
        return f"SymTag({self.key})"


class PDepth(SDepth):
    """picklable symbolic depth (re-attached to the same solver variable on unpickling)"""

    def __new__(cls, key: str, sample: int = 7) -> "PDepth":  # type: ignore[override]
        o = int.__new__(cls, sample)
        o.key = key  # type: ignore[attr-defined]
        return o

    @property
    def sym(self) -> Any:  # type: ignore[override]
        return _REG[self.key]  # type: ignore[attr-defined]

    def __reduce__(self) -> Any:
        return (PDepth, (self.key,))  # type: ignore[attr-defined]

    def __deepcopy__(self, memo: Any) -> "PDepth":
        return self

    def __eq__(self, o: Any) -> Any:  # type: ignore[override]
        if isinstance(o, PDepth):
            return o.key == self.key  # type: ignore[attr-defined]
        return self.sym == o

    def __hash__(self) -> int:
        return hash(self.key)  # type: ignore[attr-defined]


class Holder(nn.Module):
    def __init__(self, p: nn.Parameter):
        super().__init__()
        self.lin = nn.Linear(3, 2, bias=False)
        self.lin.weight = p

    def forward(self, x: torch.Tensor) -> torch.Tensor:
        return self.lin(x)


def _roundtrip(obj: Any, how: str) -> Any:
    if how == "pickle":
        return pickle.loads(pickle.dumps(obj))
    buf = io.BytesIO()
    torch.save(obj, buf)
    buf.seek(0)
    return torch.load(buf, weights_only=False)


def _identity_backend(gm: Any, example_inputs: Any) -> Any:
    return gm


OPS: Dict[str, Callable[[nn.Parameter, Optional[Holder]], Tuple[nn.Parameter, Optional[Holder]]]] = {}


def _op(name: str) -> Callable[[Any], Any]:
    def deco(f: Any) -> Any:
        OPS[name] = f
        return f
    return deco


@_op("deepcopy(param)")
def _o1(p: nn.Parameter, m: Optional[Holder]) -> Tuple[nn.Parameter, Optional[Holder]]:
    return copy.deepcopy(p), None


@_op("deepcopy(module)")
def _o2(p: nn.Parameter, m: Optional[Holder]) -> Tuple[nn.Parameter, Optional[Holder]]:
    m2 = copy.deepcopy(m or Holder(p))
    return m2.lin.weight, m2


@_op("pickle(param)")
def _o3(p: nn.Parameter, m: Optional[Holder]) -> Tuple[nn.Parameter, Optional[Holder]]:
    return _roundtrip(p, "pickle"), None


@_op("pickle(module)")
def _o4(p: nn.Parameter, m: Optional[Holder]) -> Tuple[nn.Parameter, Optional[Holder]]:
    m2 = _roundtrip(m or Holder(p), "pickle")
    return m2.lin.weight, m2


@_op("torch.save/load(param)")
def _o5(p: nn.Parameter, m: Optional[Holder]) -> Tuple[nn.Parameter, Optional[Holder]]:
    return _roundtrip(p, "torch"), None


@_op("torch.save/load(module)")
def _o6(p: nn.Parameter, m: Optional[Holder]) -> Tuple[nn.Parameter, Optional[Holder]]:
    m2 = _roundtrip(m or Holder(p), "torch")
    return m2.lin.weight, m2


@_op("module.to(float64)")
def _o7(p: nn.Parameter, m: Optional[Holder]) -> Tuple[nn.Parameter, Optional[Holder]]:
    m = m or Holder(p)
    m.to(torch.float64)
    return m.lin.weight, m


@_op("module.half()")
def _o8(p: nn.Parameter, m: Optional[Holder]) -> Tuple[nn.Parameter, Optional[Holder]]:
    m = m or Holder(p)
    m.half()
    return m.lin.weight, m


@_op("load_state_dict")
def _o9(p: nn.Parameter, m: Optional[Holder]) -> Tuple[nn.Parameter, Optional[Holder]]:
    m = m or Holder(p)
    sd = {k: v.detach().clone() + 1 for k, v in m.state_dict().items()}  # new values: the load must be visible afterwards
    m.load_state_dict(sd)
    return m.lin.weight, m


@_op("requires_grad_ toggle")
def _o10(p: nn.Parameter, m: Optional[Holder]) -> Tuple[nn.Parameter, Optional[Holder]]:
    p.requires_grad_(not p.requires_grad)
    return p, m


@_op("library transform")
def _o11(p: nn.Parameter, m: Optional[Holder]) -> Tuple[nn.Parameter, Optional[Holder]]:
    from unit_scaling.transforms.utils import apply_transform
    m2 = apply_transform(m or Holder(p), _identity_backend)
    return m2.lin.weight, m2


VALUE_CHANGING = {"module.to(float64)", "module.half()"}


def invariant(q: Any) -> Dict[str, bool]:
    """I(p): an nn.Parameter carrying the copy/pickle hooks bound to itself."""
    from unit_scaling import parameter as up
    d = getattr(q, "__dict__", {})
    dc, rx = d.get("__deepcopy__"), d.get("__reduce_ex__")
    return {
        "is nn.Parameter": isinstance(q, nn.Parameter),
        "__deepcopy__ hook installed and bound to the object itself": dc is not None and getattr(dc, "__self__", None) is q
        and getattr(dc, "__func__", None) is up._parameter_deepcopy,
        "__reduce_ex__ hook installed and bound to the object itself": rx is not None and getattr(rx, "__self__", None) is q
        and getattr(rx, "__func__", None) is up._parameter_reduce_ex,
    }


def h_step(opname: str, depth_kind: str, requires_grad: bool):
    def h(c: Ctx) -> None:
        import unit_scaling as uu
        from unit_scaling import optim as uo
        from unit_scaling.parameter import has_parameter_data
        info = {"op": opname, "depth": depth_kind, "requires_grad": requires_grad}
        sel = z3.Int("tag_sel")
        c.assumes += [sel >= 0, sel <= 3]
        c.extra_vars["tag_sel"] = sel
        _REG["tag"] = sel
        tag = SymTag("tag")
        depth: Any = None
        if depth_kind == "sym":
            dsym = c.dim("depth", 1, 1024, sample=7)
            _REG["depth"] = dsym
            depth = PDepth("depth")
        with Session():
            data = torch.arange(6.0).reshape(2, 3) + 1
            p = uu.Parameter(data.clone(), tag, depth)  # arbitrary valid state: any tag, any depth
            p.requires_grad_(requires_grad)
            pre = invariant(p)
            c.oblige("precondition: constructed parameter satisfies I", z3.BoolVal(all(pre.values())), info={**info, "claim": "pre"})
            f_before_adam = uo.lr_scale_func_adam(p)  # forks on the tag
            f_before_sgd = uo.lr_scale_func_sgd("to_output_scale")(p)
            q, m = OPS[opname](p, None)
            for k, v in invariant(q).items():
                c.oblige(f"I after op: {k}", z3.BoolVal(v), info={**info, "claim": "inv", "what": k})
            ok_data = bool(has_parameter_data(q))
            c.oblige("still a tagged parameter (has_parameter_data)", z3.BoolVal(ok_data), info={**info, "claim": "tagged"})
            c.oblige("same type tag", z3.BoolVal(getattr(q, "mup_type", None) is tag or getattr(q, "mup_type", None) == tag), info={**info, "claim": "tag"})
            qd = getattr(q, "mup_scaling_depth", "<missing>")
            same_depth = (qd is None) if depth is None else (isinstance(qd, PDepth) and qd.key == "depth")
            c.oblige("same depth", z3.BoolVal(bool(same_depth)), info={**info, "claim": "depth"})
            want_rg = (not requires_grad) if opname == "requires_grad_ toggle" else requires_grad
            c.oblige("same trainable status", z3.BoolVal(isinstance(q, nn.Parameter) and q.requires_grad == want_rg), info={**info, "claim": "rg"})
            want = (data + 1 if opname == "load_state_dict" else data).to(q.dtype)
            want_dt = {"module.to(float64)": torch.float64, "module.half()": torch.float16}.get(opname, torch.float32)
            c.oblige("expected dtype", z3.BoolVal(q.dtype == want_dt), info={**info, "claim": "dtype"})
            c.oblige("same values", z3.BoolVal(tuple(q.shape) == (2, 3) and torch.equal(q.detach(), want)), info={**info, "claim": "values"})
            if ok_data:
                fa, fs = uo.lr_scale_func_adam(q), uo.lr_scale_func_sgd("to_output_scale")(q)
                c.oblige("same Adam learning-rate scale", _sreal(fa).z == _sreal(f_before_adam).z, info={**info, "claim": "lr"})
                c.oblige("same SGD learning-rate scale", _sreal(fs).z == _sreal(f_before_sgd).z, info={**info, "claim": "lr"})
            # the library optimizers accept it
            acc, groups = True, []
            try:
                groups = list(uo.scaled_parameters([q], uo.lr_scale_func_adam, lr=1.0))
            except ValueError:
                acc = False
            # accepted = it ends up in exactly one optimizer group (frozen or not), carrying the original's scale
            acc = acc and len(groups) == 1 and len(groups[0]["params"]) == 1 and groups[0]["params"][0] is q
            c.oblige("accepted by the library optimizers", z3.BoolVal(acc), info={**info, "claim": "accepted"})
            if acc and ok_data:
                c.oblige("its optimizer group carries the original's learning-rate scale", _sreal(groups[0]["lr"]).z == _sreal(f_before_adam).z,
                         info={**info, "claim": "lr"})

    return h


# ------------------------------------------------------------------------------------------ concrete histories
def run_history(ops: Tuple[str, ...], tag: str, depth: Optional[int]) -> List[str]:
    """A real history on real objects; the expected observable state (values, dtype, trainability) is tracked
    alongside (load_state_dict loads new values, .to/.half change dtype, the toggle flips requires_grad)."""
    import unit_scaling as uu
    from unit_scaling import optim as uo
    from unit_scaling.parameter import has_parameter_data
    data = torch.arange(6.0).reshape(2, 3) + 1
    p = uu.Parameter(data.clone(), tag, depth)  # type: ignore[arg-type]
    f0 = uo.lr_scale_func_adam(p)
    m: Optional[Holder] = None
    q = p
    bad: List[str] = []
    exp_vals, exp_dt, exp_rg = data.double(), torch.float32, True
    transformed = False
    for o in ops:
        if transformed and o in ("pickle(module)", "torch.save/load(module)"):
            return []  # a transformed module holds closures and a dynamic class: not picklable by design, whatever its parameters
        transformed = transformed or o == "library transform"
        try:
            q, m = OPS[o](q, m)
        except Exception as e:
            return [f"{o} raised {type(e).__name__}: {e}"]
        if o == "load_state_dict":
            exp_vals = exp_vals + 1
        elif o == "module.to(float64)":
            exp_dt = torch.float64
        elif o == "module.half()":
            exp_dt = torch.float16
        elif o == "requires_grad_ toggle":
            exp_rg = not exp_rg
    if not isinstance(q, nn.Parameter):
        bad.append("no longer an nn.Parameter")
    if not has_parameter_data(q):
        bad.append("tags lost")
    else:
        if q.mup_type != tag or q.mup_scaling_depth != depth:
            bad.append(f"tags changed to {q.mup_type}/{q.mup_scaling_depth}")
        if uo.lr_scale_func_adam(q) != f0:
            bad.append("learning-rate scale changed")
        try:
            groups = list(uo.scaled_parameters([q], uo.lr_scale_func_adam, lr=1.0))
            if not (len(groups) == 1 and len(groups[0]["params"]) == 1 and groups[0]["params"][0] is q):
                bad.append(f"not given an optimizer group of its own ({len(groups)} groups)")
            elif abs(float(groups[0]["lr"]) - float(f0)) > 1e-12 * abs(float(f0)):
                bad.append(f"optimizer group lr {float(groups[0]['lr'])!r} instead of {float(f0)!r}")
            for cls in (uo.Adam, uo.AdamW, uo.SGD):
                opt = cls([q], lr=1.0)
                if sum(len(g["params"]) for g in opt.param_groups) != 1:
                    bad.append(f"{cls.__name__} does not hold it")
        except ValueError as e:
            bad.append(f"rejected by optimizer ({e})")
    if q.requires_grad != exp_rg:
        bad.append(f"requires_grad is {q.requires_grad}, expected {exp_rg}")
    if q.dtype != exp_dt:
        bad.append(f"dtype is {q.dtype}, expected {exp_dt}")
    if tuple(q.shape) != (2, 3) or not torch.equal(q.detach().double(), exp_vals):
        bad.append(f"values are {q.detach().flatten().tolist()}, expected {exp_vals.flatten().tolist()}")
    return bad  # observable effects only: the hook invariant is a proof device of the step check


def task_histories(length: int, chunk: int, nchunks: int) -> List[Dict[str, Any]]:
    torch.set_num_threads(1)
    names = list(OPS)
    seqs = [s for i, s in enumerate(itertools.product(names, repeat=length)) if i % nchunks == chunk]
    fails = []
    n = 0
    for s in seqs:
        for tag, depth in (("weight", None), ("output", 7)) if length >= 3 else [(t, d) for t in TAGS for d in (None, 1, 7)]:
            n += 1
            bad = run_history(s, tag, depth)
            if bad:
                fails.append((s, tag, depth, bad))
    recs: List[Dict[str, Any]] = []
    seen = set()
    for s, tag, depth, bad in fails:
        # key by the shortest failing suffix so that the same root cause is one violation
        key = f"C09/history/{' ; '.join(s)}"
        if key in seen:
            continue
        seen.add(key)
        recs.append({"type": "violation", "key": key, "what": f"history {list(s)} on a '{tag}' parameter with depth {depth}: {bad}",
                     "replay": {"kind": "history", "ops": list(s), "tag": tag, "depth": depth}})
        if len(recs) >= 5:
            break
    if not fails:
        recs.append({"type": "obligation", "name": f"histories/length={length}/chunk={chunk}", "status": CONCRETE, "queries": 0, "kind": "enumeration",
                     "detail": f"{n} real histories of length {length} over {len(names)} operations: tags, depth, values, trainability, lr scale and hooks preserved"})
    return recs


def protocol_validation() -> List[Dict[str, Any]]:
    """The protocol model the step argument relies on, validated on the real runtime with sentinel hooks."""
    import unit_scaling as uu
    p = uu.Parameter(torch.zeros(2, 3), "weight")
    fired = {"dc": 0, "rx": 0}
    odc, orx = p.__dict__["__deepcopy__"], p.__dict__["__reduce_ex__"]
    p.__deepcopy__ = lambda memo: (fired.__setitem__("dc", fired["dc"] + 1), odc(memo))[1]  # type: ignore[method-assign]
    p.__reduce_ex__ = lambda proto: (fired.__setitem__("rx", fired["rx"] + 1), orx(proto))[1]  # type: ignore[method-assign]
    copy.deepcopy(p)
    copy.deepcopy(Holder(p))
    pickle.dumps(p)
    buf = io.BytesIO()
    torch.save(Holder(p), buf)
    m = Holder(p)
    same = []
    m.to(torch.float64)
    same.append(m.lin.weight is p)
    m.load_state_dict(m.state_dict())
    same.append(m.lin.weight is p)
    ok = fired["dc"] == 2 and fired["rx"] >= 2 and all(same)
    st = CONCRETE if ok else INCONCLUSIVE
    return [{"type": "obligation", "name": "protocol/deepcopy->instance __deepcopy__, pickle|torch.save->instance __reduce_ex__, .to/load_state_dict in place",
             "status": st, "queries": 0, "kind": "contract-validation", "detail": {"fired": fired, "same_object": same}}]


def replay_step(obname: str, model: Dict[str, Any], info: Any) -> Tuple[bool, str]:
    tag = TAGS[int(model.get("tag_sel", 0)) % 4] if "tag_sel" in model else "weight"
    depth = int(model.get("depth", 7)) if info.get("depth") == "sym" else None
    ops = (info["op"],)
    bad = run_history(ops, tag, depth)
    if not bad and info.get("claim") in ("inv",):
        # a broken invariant is not observable by itself: find the shortest real history through this operation that is
        changers = ["load_state_dict", "module.to(float64)", "requires_grad_ toggle"]
        serial = ["deepcopy(param)", "pickle(param)", "torch.save/load(param)", "deepcopy(module)"]
        cands = [ops + ops] + [ops + (y,) for y in serial] + [ops + (x, y) for x in changers for y in serial]
        for cand in cands:
            b2 = run_history(cand, tag, depth)
            if b2:
                return True, f"history {list(cand)} on a '{tag}' parameter (depth {depth}): {b2}"
    return bool(bad), f"history {list(ops)} on a '{tag}' parameter (depth {depth}): {bad or 'all preserved (also in every 2-3 step continuation tried)'}"


def task_step(opname: str, depth_kind: str, rg: bool, timeout: float) -> List[Dict[str, Any]]:
    torch.set_num_threads(1)
    return discharge("C09", f"step[{opname},depth={depth_kind},requires_grad={rg}]", h_step(opname, depth_kind, rg), replay_step, timeout,
                     base_info={"op": opname, "depth": depth_kind, "requires_grad": rg})


def run(rep: Report, only: str = "") -> None:
    from unit_scaling import parameter as up
    thorough = rep.tier == "thorough"
    tasks: List[Any] = []
    for o in OPS:
        for dk in ("none", "sym"):
            for rg in (True, False):
                tasks.append((task_step, (o, dk, rg, 30)))
    tasks.append((protocol_validation, ()))
    for L, chunks in ((1, 1), (2, 4), (3, 16)) if not thorough else ((1, 1), (2, 4), (3, 16), (4, 64)):
        for ch in range(chunks):
            tasks.append((task_histories, (L, ch, chunks)))
    if only:
        tasks = [t for t in tasks if only in repr(t[1])]
    rep.extend(run_tasks(tasks))
    rep.functions = [describe_function(f) for f in (lazy(lambda: up._parameter_deepcopy), lazy(lambda: up._parameter_reduce_ex), lazy(lambda: up._rebuild_parameter_with_state), lazy(lambda: up.Parameter), lazy(lambda: up.has_parameter_data))]
    rep.bounds = {"step": "one operation of the property's alphabet from an arbitrary valid state: tag = symbolic selector over the four tags (path forking in has_parameter_data / "
                          "lr_scale_func), depth None or symbolic in [1,1024], requires_grad both; invariant I = nn.Parameter + hooks bound to the object itself",
                  "histories": f"all sequences of length <= {4 if thorough else 3} over the 11 operations on real objects (enumeration, labelled; length >= 3 with 2 tag/depth pairs)",
                  "outside": "copy/pickle/torch.save dispatch is Python/torch protocol machinery: executed for real, not modelled; pickling a whole module AFTER a library transform "
                             "is skipped (transformed modules carry closures and are not picklable, independently of their parameters)"}
    rep.assumptions = ["if I is inductive for every operation, histories of any length preserve tags (inductive argument); the enumeration cross-checks that I is strong enough up to the bound"]
    rep.trusted = ["CPython copy/pickle protocol and torch serialisation (executed, validated by sentinel hooks each run)", "z3 for tag-selector path feasibility and lr-scale equalities"]
    rep.sample({"harness": "step[deepcopy(param),depth=sym,requires_grad=True]", "obligation": "I after op: __deepcopy__ hook installed and bound to the object itself"})
    rep.extra["exhaustive"] = False


def replay(data: Dict[str, Any]) -> Tuple[bool, str]:
    if data.get("kind") == "history":
        bad = run_history(tuple(data["ops"]), data["tag"], data["depth"])
        return bool(bad), str(bad or "preserved")
    return replay_step(data["obligation"], data["model"], data.get("info") or {})
