"""C18 - scale tracking is purely observational; its metrics are the true statistics.

Per program: the REAL track_scales() runs through TorchDynamo on real inputs (outputs/gradients bit-identical to the
unwrapped module; recorded numbers = statistics recomputed on a plain interpretation of the captured graph), and the
library's REAL ScaleTrackingInterpreter / ScaleTrackingAutogradFunction are executed on symbolic tensors against a
plain interpretation of the same graph: values and gradients unify for all data, every recorded metric unifies with
the statistic term of the tensor (and of the accumulated gradient) that flowed through that node."""
from __future__ import annotations

import copy
from typing import Any, Dict, List, Optional, Tuple

import torch
import torch.fx as fx
import z3

from ..fxsym import interp as ix
from ..fxsym.capture import capture
from ..fxsym.programs import build, spec_name, tprograms
from ..par import run_tasks
from ..report import CONCRETE, INCONCLUSIVE, Report, describe_function, lazy
from ..sym import tensor as T
from ..sym.runner import discharge
from ..sym.scalar import Ctx, SReal
from ..sym.tensor import LC, Session, STensor, no_grad
from .c06 import _eq_lc
from .c16 import _plain, _unplain

FIELDS = ["mean_abs", "abs_mean", "std", "abs_max", "abs_min"]


def stat_lcs(t: STensor) -> Dict[str, LC]:
    """oracle: the statistic terms of a tensor, spelled independently of Metrics.from_tensor"""
    with no_grad():
        a = abs(t) if False else t.abs()
        return {"mean_abs": a.mean().lc, "abs_mean": t.mean().abs().lc, "std": t.std().lc, "abs_max": a.max().lc, "abs_min": a.min().lc}


def _eq_stat(c: Ctx, missing: str, name: str, got: Any, want: LC, info: Dict[str, Any]) -> None:
    """a recorded number = the read-out of the expected statistic term (read-outs are hash-consed per term and linear, see tensor._item_of)"""
    if not isinstance(got, SReal):
        c.oblige(missing, z3.BoolVal(False), info={**info, "mismatch": repr(got)})
        return
    c.oblige(name, got.z == T._item_of(want, True).z, info=info)


def _scalar_loss(out: Any) -> STensor:
    if isinstance(out, (tuple, list)):
        parts = [o if len(o.shape) == 0 else o.sum() for o in out if isinstance(o, STensor) and o.meta.is_floating_point()]
        tot = parts[0]
        for p in parts[1:]:
            tot = tot + p
        return tot
    return out


def harness(spec: Any, cap: Any):
    def h(c: Ctx) -> None:
        import unit_scaling.transforms._track_scales as uts
        info = {"program": spec_name(spec), "spec": _plain(spec)}
        table = ix.size_symbols(c)
        gm = cap.original
        with Session():
            leaves = ix.leaves_for(c, gm, cap.example_inputs, table)
            phs = [n for n in gm.graph.nodes if n.op == "placeholder"]
            # ---- plain interpretation
            rec: Dict[str, Any] = {}
            out_p = ix.SymInterp(fx.GraphModule(gm, copy.deepcopy(gm.graph)), leaves, record=rec, functional_inplace=True).run_symbolic()
            loss_p = _scalar_loss(out_p)
            G = STensor.leaf("G", loss_p.shape, loss_p.dtype)
            for t in leaves.values():
                t.grad = None
            T.GRAD_RECORD = {}
            loss_p.backward(G)
            grads_rec = T.GRAD_RECORD
            T.GRAD_RECORD = None
            g_plain = {k: t.grad for k, t in leaves.items()}
            # ---- the library's instrumented interpretation (real ScaleTrackingInterpreter / autograd Function)
            gm2 = fx.GraphModule(gm, copy.deepcopy(gm.graph))
            n_data0 = len(c.data_vars)
            out_i = uts.ScaleTrackingInterpreter(gm2)(*[leaves[str(n.target)] for n in phs])
            loss_i = _scalar_loss(out_i)
            for t in leaves.values():
                t.grad = None
            loss_i.backward(G)
            g_inst = {k: t.grad for k, t in leaves.items()}
            dv = {v.get_id(): lc for v, lc in c.data_vars}
            # ---- observational
            _eq_lc(c, "outputs unchanged by tracking", loss_i.lc, loss_p.lc, {**info, "claim": "values"})
            for k, t in leaves.items():
                if g_plain[k] is None and g_inst[k] is None:
                    continue
                if g_plain[k] is None or g_inst[k] is None:
                    c.oblige(f"grad[{k}] unchanged by tracking", z3.BoolVal(False), info={**info, "claim": "values", "mismatch": "gradient appears/disappears"})
                else:
                    _eq_lc(c, f"grad[{k}] unchanged by tracking", g_inst[k], g_plain[k], {**info, "claim": "values"})
            c.oblige("no graph input modified", z3.BoolVal(all(t.version == 0 for t in leaves.values())), info={**info, "claim": "values"})
            # ---- metrics = true statistics
            seen_vals: set = set()
            for n in gm2.graph.nodes:
                if n.op == "output":
                    continue
                val = rec.get(n.name)
                # a pass-through op (.contiguous() of a contiguous tensor) returns the very object an earlier node produced: the plain interpretation
                # then holds ONE object with the summed gradient of both nodes' consumers, which is not the gradient flowing through this node;
                # its backward metrics are decided on the real tensors only (concrete_metrics keeps the two apart with a view)
                passthrough = isinstance(val, STensor) and id(val) in seen_vals
                if isinstance(val, STensor):
                    seen_vals.add(id(val))
                is_float = isinstance(val, STensor) and val.meta.is_floating_point()
                has = "metrics" in n.meta
                c.oblige(f"{n.name}: instrumented iff it produces a float tensor", z3.BoolVal(has == is_float and bool(n.meta.get("outputs_float_tensor")) == is_float),
                         info={**info, "claim": "metrics", "node": n.name})
                if not (has and is_float):
                    continue
                m = n.meta["metrics"]
                want = stat_lcs(val)
                for f in FIELDS:
                    got = getattr(m.fwd, f)
                    _eq_stat(c, f"{n.name}: fwd.{f} is a statistic of a tensor", f"{n.name}: fwd.{f} = statistic of the tensor that flowed there", got, want[f],
                             {**info, "claim": "metrics", "node": n.name})
                numel = m.fwd.numel
                c.oblige(f"{n.name}: fwd.numel", (numel == val.numel()) if not isinstance(numel == val.numel(), bool) else z3.BoolVal(numel == val.numel()),
                         info={**info, "claim": "metrics", "node": n.name})
                gT = grads_rec.get(id(val))
                if passthrough:
                    continue
                if gT is None:
                    c.oblige(f"{n.name}: no backward metrics without gradient", z3.BoolVal(m.bwd is None), info={**info, "claim": "metrics", "node": n.name})
                else:
                    if m.bwd is None:
                        c.oblige(f"{n.name}: backward metrics recorded", z3.BoolVal(False), info={**info, "claim": "metrics", "node": n.name, "mismatch": "bwd is None"})
                        continue
                    wantb = stat_lcs(STensor(gT, val.shape, val.meta))
                    for f in FIELDS:
                        got = getattr(m.bwd, f)
                        _eq_stat(c, f"{n.name}: bwd.{f} is a statistic of a tensor", f"{n.name}: bwd.{f} = statistic of the TOTAL gradient that reached it", got, wantb[f],
                                 {**info, "claim": "metrics", "node": n.name})

            # ---- a second, forward-only call of the same tracked graph with other data: metrics are those of THIS call
            leaves2 = {k: STensor.leaf(k + "'", t.shape, t.dtype, requires_grad=t.requires_grad) for k, t in leaves.items()}
            rec2: Dict[str, Any] = {}
            ix.SymInterp(fx.GraphModule(gm, copy.deepcopy(gm.graph)), leaves2, record=rec2, functional_inplace=True).run_symbolic()
            uts.ScaleTrackingInterpreter(gm2)(*[leaves2[str(n.target)] for n in phs])
            dv = {v.get_id(): lc for v, lc in c.data_vars}
            for n in gm2.graph.nodes:
                val = rec2.get(n.name)
                if n.op == "output" or not (isinstance(val, STensor) and val.meta.is_floating_point()) or "metrics" not in n.meta:
                    continue
                m = n.meta["metrics"]
                got = m.fwd.mean_abs
                _eq_stat(c, f"{n.name}: second call: fwd.mean_abs recorded", f"{n.name}: second call: fwd.mean_abs = statistic of the tensor of the second call", got,
                         stat_lcs(val)["mean_abs"], {**info, "claim": "second", "node": n.name})
                c.oblige(f"{n.name}: second (forward-only) call reports no backward metrics", z3.BoolVal(m.bwd is None), info={**info, "claim": "second", "node": n.name})

    return h


# ------------------------------------------------------------------------------------------ concrete (real path)
def concrete_check(spec: Any) -> Tuple[bool, str]:
    """real track_scales through Dynamo vs the unwrapped module, bit for bit; recorded numbers vs recomputed statistics"""
    p = build(spec)
    return _bit_identical(p, p.example_inputs(), spec_name(spec))


class _TiedEmbedOut(torch.nn.Module):
    """token embedding and output projection share ONE parameter (weight tying across two torch.nn children)"""

    def __init__(self) -> None:
        super().__init__()
        self.emb = torch.nn.Embedding(9, 6)
        self.mid = torch.nn.Linear(6, 6)
        self.out = torch.nn.Linear(6, 9, bias=False)
        self.out.weight = self.emb.weight

    def forward(self, i: torch.Tensor) -> torch.Tensor:
        return self.out(torch.tanh(self.mid(self.emb(i)))).square().mean()


class _SharedWeightTwoLinears(torch.nn.Module):
    def __init__(self, unit_scaled: bool) -> None:
        super().__init__()
        import unit_scaling as uu
        L = uu.Linear if unit_scaled else torch.nn.Linear
        self.a, self.b = L(6, 6), L(6, 6)
        self.b.weight = self.a.weight

    def forward(self, x: torch.Tensor) -> torch.Tensor:
        return self.b(torch.relu(self.a(x))).sum()


class _SameModuleTwice(torch.nn.Module):
    def __init__(self) -> None:
        super().__init__()
        self.l = torch.nn.Linear(6, 6)

    def forward(self, x: torch.Tensor) -> torch.Tensor:
        return self.l(torch.tanh(self.l(x))).sum()


class _FrozenAndBuffer(torch.nn.Module):
    """a frozen (requires_grad=False) layer and a float buffer feed the loss next to a trainable layer"""

    def __init__(self) -> None:
        super().__init__()
        self.frozen = torch.nn.Linear(6, 6)
        for p_ in self.frozen.parameters():
            p_.requires_grad_(False)
        self.train_ = torch.nn.Linear(6, 6)
        self.register_buffer("shift", torch.randn(6))

    def forward(self, x: torch.Tensor) -> torch.Tensor:
        return (self.train_(torch.tanh(self.frozen(x))) * self.shift).sum()


SHARING = {
    "frozen layer and float buffer": (lambda: _FrozenAndBuffer(), lambda: [torch.randn(4, 6)]),
    "tied embedding/output weight": (lambda: _TiedEmbedOut(), lambda: [torch.randint(0, 9, (5,))]),
    "one weight in two nn.Linear": (lambda: _SharedWeightTwoLinears(False), lambda: [torch.randn(4, 6)]),
    "one weight in two uu.Linear": (lambda: _SharedWeightTwoLinears(True), lambda: [torch.randn(4, 6)]),
    "one nn.Linear called twice": (lambda: _SameModuleTwice(), lambda: [torch.randn(4, 6)]),
}


def concrete_sharing(name: str) -> Tuple[bool, str]:
    torch.manual_seed(3)
    mk, ins = SHARING[name]
    return _bit_identical(mk(), ins(), name)


def task_sharing(name: str) -> List[Dict[str, Any]]:
    """parameters shared between sub-modules: the tracked copy must keep them shared (values and gradients of the unwrapped module)"""
    torch.set_num_threads(1)
    try:
        bad, desc = concrete_sharing(name)
    except Exception as e:
        return [{"type": "obligation", "name": f"sharing[{name}]", "status": INCONCLUSIVE, "queries": 0, "detail": f"{type(e).__name__}: {e}"}]
    if bad:
        return [{"type": "violation", "key": f"C18/sharing[{name}]", "what": desc, "replay": {"kind": "sharing", "name": name}}]
    return [{"type": "obligation", "name": f"sharing[{name}]/real track_scales: outputs and gradients bit-identical", "status": CONCRETE, "queries": 0, "kind": "concrete", "detail": desc}]


def _bit_identical(p: Any, inputs: List[torch.Tensor], label: str) -> Tuple[bool, str]:
    from unit_scaling.transforms import track_scales
    ins_a = [t.clone().requires_grad_(True) if t.is_floating_point() else t.clone() for t in inputs]
    torch.manual_seed(0)
    out_a = p(*ins_a)
    la = out_a[0].sum() + out_a[1] if isinstance(out_a, tuple) else (out_a if out_a.dim() == 0 else out_a.sum())
    la.backward()
    ga = [t.grad for t in ins_a if t.is_floating_point()]
    pa = {k: v.grad.clone() for k, v in p.named_parameters() if v.grad is not None}
    p.zero_grad()
    torch._dynamo.reset()
    tm = track_scales(p)
    ins_b = [t.clone() for t in inputs]
    torch.manual_seed(0)
    try:
        out_b = tm(*ins_b)
        lb = out_b[0].sum() + out_b[1] if isinstance(out_b, tuple) else (out_b if out_b.dim() == 0 else out_b.sum())
        lb.backward()
    except Exception as e:
        return True, f"track_scales({label}) raises {type(e).__name__}: {str(e)[:200]}"
    finally:
        torch._dynamo.reset()
    bad = []
    oa = out_a if isinstance(out_a, tuple) else (out_a,)
    ob = out_b if isinstance(out_b, tuple) else (out_b,)
    if any(not torch.equal(x, y) for x, y in zip(oa, ob)):
        bad.append("outputs differ from the unwrapped module")
    gb = [t.grad for t in ins_b if t.is_floating_point()]
    if any((x is None) != (y is None) or (x is not None and not torch.equal(x, y)) for x, y in zip(ga, gb)):
        bad.append("input gradients differ")
    pb = {k: v.grad for k, v in tm.named_parameters() if v.grad is not None}
    rg_a = {k: v.requires_grad for k, v in list(p.named_parameters()) + list(p.named_buffers())}
    rg_b = {k: (v.requires_grad, v.grad is not None) for k, v in list(tm.named_parameters()) + list(tm.named_buffers())}
    for k, flag in rg_a.items():
        if k in rg_b and (rg_b[k][0] != flag or (not flag and rg_b[k][1])):
            bad.append(f"{k}: requires_grad {flag} in the module, {rg_b[k][0]} in the tracked copy" + (" (and it received a gradient)" if rg_b[k][1] and not flag else ""))
            break
    for k in pa:
        if k not in pb or not torch.equal(pa[k], pb[k]):
            bad.append(f"parameter gradient {k} differs")
            break
    return bool(bad), f"track_scales({label}): " + "; ".join(bad[:4] or ["bit-identical to the unwrapped module"])


def concrete_metrics(spec: Any) -> Tuple[bool, str]:
    """recorded metrics against statistics recomputed on a plain interpretation of the SAME captured graph (real tensors)"""
    from unit_scaling.transforms import track_scales
    p = build(spec)
    cap = capture(track_scales, p, p.example_inputs(), run_backward=False)
    if cap.error:
        return True, f"track_scales({spec_name(spec)}) fails: {cap.error[:200]}"
    gm = cap.original
    phs = [n for n in gm.graph.nodes if n.op == "placeholder"]
    vals: Dict[str, torch.Tensor] = {}

    import operator

    class Rec(fx.Interpreter):
        def call_function(self, target: Any, args: Any, kwargs: Any) -> Any:
            # reference semantics: the value a node produced, not what a later in-place update turned it into
            return super().call_function(operator.add if target is operator.iadd else target, args, kwargs)

        def run_node(self, n: fx.Node) -> Any:
            out = super().run_node(n)
            if isinstance(out, torch.Tensor) and out.is_floating_point():
                if n.op != "placeholder" and any(v is out for v in vals.values()):
                    # a pass-through op returned the very tensor object an earlier node produced: the value that flows through THIS node
                    # is the same, the gradient that flows through it is only what its own consumers send - keep the two apart
                    out = out.view_as(out)
                if out.requires_grad and n.op != "placeholder":
                    out.retain_grad()
                vals[n.name] = out
            return out

    leaves = [ex.detach().clone().requires_grad_(True) if ex.is_floating_point() else ex.detach().clone() for ex in cap.example_inputs]
    torch.manual_seed(0)
    out = Rec(fx.GraphModule(gm, copy.deepcopy(gm.graph))).run(*leaves)
    out = out[0] if isinstance(out, (tuple, list)) and len(out) == 1 else out
    loss = (out[0].sum() + out[1]) if isinstance(out, (tuple, list)) else (out if out.dim() == 0 else out.sum())
    loss.backward()
    # the library's interpreter on the same graph and the same leaves
    import unit_scaling.transforms._track_scales as uts
    gm2 = fx.GraphModule(gm, copy.deepcopy(gm.graph))
    leaves2 = [t.detach().clone().requires_grad_(True) if t.is_floating_point() else t.detach().clone() for t in leaves]
    torch.manual_seed(0)
    out2 = uts.ScaleTrackingInterpreter(gm2)(*leaves2)
    out2 = out2[0] if isinstance(out2, (tuple, list)) and len(out2) == 1 else out2
    loss2 = (out2[0].sum() + out2[1]) if isinstance(out2, (tuple, list)) else (out2 if out2.dim() == 0 else out2.sum())
    loss2.backward()
    bad = []
    for n in gm2.graph.nodes:
        if n.op == "output":
            continue
        m = n.meta.get("metrics")
        t = vals.get(n.name)
        if (m is not None) != (t is not None):
            bad.append(f"{n.name}: instrumented={m is not None} float={t is not None}")
            continue
        if m is None:
            continue
        exp = uts.Metrics.from_tensor(t.detach())
        ref = {"mean_abs": t.detach().abs().mean().item(), "abs_mean": t.detach().mean().abs().item(), "std": t.detach().std().item(),
               "abs_max": t.detach().abs().max().item(), "abs_min": t.detach().abs().min().item(), "numel": t.numel()}
        for f, v in ref.items():
            gv = getattr(m.fwd, f)
            if not (_close(gv, v)):
                bad.append(f"{n.name}: fwd.{f}={gv!r} but the tensor has {v!r}")
        gr = t.grad if n.op != "placeholder" else leaves[[str(q.target) for q in phs].index(str(n.target))].grad
        if gr is None:
            if m.bwd is not None and not t.requires_grad:
                bad.append(f"{n.name}: backward metrics without gradient")
        elif m.bwd is None:
            bad.append(f"{n.name}: no backward metrics although a gradient of norm {gr.norm().item():.3g} reached it")
        else:
            refb = {"mean_abs": gr.abs().mean().item(), "std": gr.std().item(), "abs_max": gr.abs().max().item(), "numel": gr.numel()}
            for f, v in refb.items():
                gv = getattr(m.bwd, f)
                if not (_close(gv, v)):
                    bad.append(f"{n.name}: bwd.{f}={gv!r} but the total gradient has {v!r}")
    # second, forward-only call with different data on the same tracked graph
    leaves3 = [torch.randn_like(t) * 3 if t.is_floating_point() else t.detach().clone() for t in leaves]
    vals.clear()
    torch.manual_seed(0)
    Rec(fx.GraphModule(gm, copy.deepcopy(gm.graph))).run(*leaves3)
    vals3 = dict(vals)
    torch.manual_seed(0)
    uts.ScaleTrackingInterpreter(gm2)(*leaves3)
    for n in gm2.graph.nodes:
        m = n.meta.get("metrics")
        t = vals3.get(n.name)
        if m is None or t is None or n.op == "output":
            continue
        v = t.detach().abs().mean().item()
        if not _close(m.fwd.mean_abs, v):
            bad.append(f"second call: {n.name}: fwd.mean_abs={m.fwd.mean_abs!r} but the tensor of this call has {v!r}")
        if m.bwd is not None:
            bad.append(f"second (forward-only) call: {n.name} still reports backward metrics")
    return bool(bad), f"metrics({spec_name(spec)}): " + "; ".join(bad[:4] or ["all recorded metrics equal the recomputed statistics"])


def _close(a: Any, b: Any) -> bool:
    """same statistic up to float32 summation order (memory layout of a gradient may differ); NaN = NaN (std of one element)"""
    if a != a and b != b:
        return True
    return a == b or abs(a - b) <= 1e-5 * max(abs(a), abs(b))


def replay_c18(obname: str, model: Dict[str, Any], info: Any) -> Tuple[bool, str]:
    spec = _unplain(info["spec"])
    b1, d1 = concrete_check(spec)
    if b1:
        return True, d1
    return concrete_metrics(spec)


def task_program(spec: Any, timeout: float) -> List[Dict[str, Any]]:
    from unit_scaling.transforms import track_scales
    torch.set_num_threads(1)
    name = spec_name(spec)
    recs: List[Dict[str, Any]] = [{"type": "programs", "n": 1}]
    for fn, label in ((concrete_check, "real track_scales: outputs and gradients bit-identical"), (concrete_metrics, "recorded metrics = recomputed statistics (real tensors)")):
        try:
            bad, desc = fn(spec)
        except Exception as e:
            recs.append({"type": "obligation", "name": f"{name}/{label}", "status": INCONCLUSIVE, "queries": 0, "detail": f"{type(e).__name__}: {e}"})
            continue
        if bad:
            recs.append({"type": "violation", "key": f"C18/{name}/{label}", "what": desc, "replay": {"info": {"spec": _plain(spec)}, "obligation": label, "model": {}}})
        else:
            recs.append({"type": "obligation", "name": f"{name}/{label}", "status": CONCRETE, "queries": 0, "kind": "concrete", "detail": desc})
    p = build(spec)
    cap = capture(track_scales, p, p.example_inputs(), run_backward=False)
    if cap.error or cap.original is None or cap.graphs != 1:
        recs.append({"type": "obligation", "name": f"{name}/capture", "status": INCONCLUSIVE, "queries": 0, "detail": cap.error or f"{cap.graphs} graphs"})
        return recs
    recs += discharge("C18", name, harness(spec, cap), replay_c18, timeout, base_info={"spec": _plain(spec)}, skip_definedness=True)
    return recs


# ------------------------------------------------------------------------------------------ analyse_module (utils.py)
def h_analyse(which: str):
    def h(c: Ctx) -> None:
        import unit_scaling as uu
        import unit_scaling.utils as uut
        from torch import nn
        info = {"module": which}
        torch.manual_seed(0)
        mod = {"uu.MLP": lambda: uu.MLP(4, 2), "nn.Sequential": lambda: nn.Sequential(nn.Linear(5, 3), nn.GELU(), nn.Linear(3, 2)),
               "uu.Linear+norm": lambda: nn.Sequential(uu.Linear(5, 3), uu.LayerNorm(3), uu.GELU())}[which]()
        d_in = 4 if which == "uu.MLP" else 5
        tracer = uut._DeepTracer()
        gm = fx.GraphModule(tracer.root if hasattr(tracer, "root") else mod, tracer.trace(mod))
        with Session():
            x = STensor.leaf("x", (2, d_in), torch.float32, requires_grad=True)
            rec: Dict[str, Any] = {}

            class Plain(fx.Interpreter):
                def run_node(self, n: fx.Node) -> Any:
                    o = super().run_node(n)
                    rec[n.name] = o
                    return o

            out_p = Plain(gm).run(x)
            G = STensor.leaf("G", out_p.shape, out_p.dtype)
            x.grad = None
            T.GRAD_RECORD = {}
            out_p.backward(G)
            grec = T.GRAD_RECORD
            T.GRAD_RECORD = None
            gx_p = x.grad
            x.grad = None
            ti = uut.ScaleTrackingInterpreter(gm)
            out_i = ti.run(x)
            out_i.backward(G)
            dv = {v.get_id(): lc for v, lc in c.data_vars}
            _eq_lc(c, "analyse: output unchanged", out_i.lc, out_p.lc, {**info, "claim": "an"})
            _eq_lc(c, "analyse: input gradient unchanged", x.grad, gx_p, {**info, "claim": "an"})
            for name, pair in ti.scales.items():
                val = rec[name]
                with no_grad():
                    want = T.lift(val).std().lc
                got = pair.forward
                _eq_stat(c, f"analyse: {name} forward scale recorded", f"analyse: {name} forward scale = std of the tensor", got, want, {**info, "claim": "an"})
                gT = grec.get(id(T.lift(val)))
                if gT is not None and pair.backward is not None:
                    with no_grad():
                        wb = STensor(gT, T.lift(val).shape, T.lift(val).meta).std().lc
                    _eq_stat(c, f"analyse: {name} backward scale recorded", f"analyse: {name} backward scale = std of the total gradient", pair.backward, wb, {**info, "claim": "an"})

    return h


def replay_analyse(obname: str, model: Dict[str, Any], info: Any) -> Tuple[bool, str]:
    import unit_scaling as uu
    from unit_scaling.utils import analyse_module
    from torch import nn
    torch.manual_seed(0)
    which = info["module"]
    mod = {"uu.MLP": lambda: uu.MLP(4, 2), "nn.Sequential": lambda: nn.Sequential(nn.Linear(5, 3), nn.GELU(), nn.Linear(3, 2)),
           "uu.Linear+norm": lambda: nn.Sequential(uu.Linear(5, 3), uu.LayerNorm(3), uu.GELU())}[which]()
    x = torch.randn(6, 4 if which == "uu.MLP" else 5, requires_grad=True)
    y0 = mod(x)
    g = torch.randn_like(y0)
    (gx0,) = torch.autograd.grad(y0, x, g)
    code = analyse_module(mod, x.detach().clone().requires_grad_(True), g, syntax_highlight=False)
    y1 = mod(x)
    ok = torch.equal(y0, y1) and f"{y0.std().item():.3}" in code
    return not ok, f"analyse_module({which}): output std {y0.std().item():.3} {'found' if ok else 'NOT found'} in the annotation"


def task_analyse(which: str) -> List[Dict[str, Any]]:
    torch.set_num_threads(1)
    return discharge("C18", f"analyse_module[{which}]", h_analyse(which), replay_analyse, 30, base_info={"module": which}, skip_definedness=True)


def run(rep: Report, only: str = "") -> None:
    import unit_scaling.transforms._track_scales as uts
    import unit_scaling.utils as uut
    thorough = rep.tier == "thorough"
    timeout = 60 if thorough else 30
    specs = tprograms(rep.tier)
    tasks: List[Any] = [(task_program, (s, timeout)) for s in specs]
    tasks += [(task_analyse, (w,)) for w in ("uu.MLP", "nn.Sequential", "uu.Linear+norm")]
    tasks += [(task_sharing, (n,)) for n in SHARING]
    if only:
        tasks = [t for t in tasks if only in (spec_name(t[1][0]) if t[0] is task_program else t[1][0])]
    
    rep.extend(run_tasks(tasks))
    rep.functions = [describe_function(f) for f in (lazy(lambda: uts.ScaleTrackingInterpreter.run_node), lazy(lambda: uts.ScaleTrackingAutogradFunction.forward), lazy(lambda: uts.ScaleTrackingAutogradFunction.backward),
                                                    lazy(lambda: uts.Metrics.from_tensor), lazy(lambda: uts._get_tracking_meta), lazy(lambda: uts._is_float_tensor), lazy(lambda: uts.track_scales), lazy(lambda: uts._make_input_tensors_require_grad),
                                                    lazy(lambda: uut.ScaleTracker.forward), lazy(lambda: uut.ScaleTracker.backward), lazy(lambda: uut.ScaleTrackingInterpreter.run_node), lazy(lambda: uut._record_scales))]
    rep.bounds = {"programs": f"{len(specs)} programs (C16 vocabulary + fan-out, bool and integer intermediates, views, negation, in-place adds, multiple outputs, parameters, conv), enumerated",
                  "symbolic": "all tensor data and dims universally quantified; every recorded statistic is an opaque term item(stat(T)) over the data symbols and must unify with the same "
                              "statistic of the tensor / total gradient of the plain interpretation",
                  "sharing": "four hand-written modules whose sub-modules share a parameter (tied embedding/output weight, one weight in two Linear layers, one layer called twice): "
                             "the real track_scales is bit-identical to the unwrapped module, per-name parameter gradients included (concrete)",
                  "concrete": "the real track_scales through TorchDynamo on real inputs: bit-identical outputs and gradients, recorded numbers equal recomputed statistics",
                  "outside": "numeric evaluation of mean/std/max (torch's); zeros in inputs matter only numerically (abs_min), not for the term structure; backward metrics of pass-through nodes (the op returns its input object) are decided on real tensors only"}
    rep.assumptions = ["mini-autograd accumulates gradients at fan-out as torch.autograd does (total gradient per tensor is recorded from it)"]
    rep.trusted = ["TorchDynamo capture", "engine S"]
    rep.sample({"program": "fan>mse", "claim": "bwd.std of node 'tanh' = std of the SUM of the gradients arriving from both consumers"})


def replay(data: Dict[str, Any]) -> Tuple[bool, str]:
    if data.get("kind") == "sharing":
        return concrete_sharing(data["name"])
    info = data.get("info") or {}
    if "module" in info:
        return replay_analyse(data["obligation"], data["model"], info)
    return replay_c18(data["obligation"], data["model"], info)
