"""C02 - gradients = PyTorch gradients x per-input data-independent scalars; scale_fwd/scale_bwd primitives."""
from __future__ import annotations

from typing import Any, Dict, List, Tuple

import torch
import z3

from ..par import run_tasks
from ..report import Report, describe_function
from ..sym.runner import discharge
from ..sym.scalar import Ctx
from ..sym.tensor import LC, Session, STensor, unify
from . import funcops as fo
from .c01 import common_meta

DTS = ["float64", "float32", "bfloat16", "float16"]


def h_primitive(which: str, rank: int, dtype: str):
    def h(c: Ctx) -> None:
        from unit_scaling.scale import scale_bwd, scale_fwd
        s = c.real("s", -1000, 1000)
        mk = fo.SymMk(c)
        with Session():
            x = mk.tensor("x", fo._lead(mk, rank), fo.DT[dtype])
            y = (scale_fwd if which == "fwd" else scale_bwd)(x, s)
            G = STensor.leaf("G", y.shape, y.dtype)
            y.backward(G)
        want_f = s.z if which == "fwd" else z3.RealVal(1)
        want_b = z3.RealVal(1) if which == "fwd" else s.z
        info = {"which": which, "rank": rank, "dtype": dtype}
        ok_f = len(y.lc) == 1 and y.lc[0][1].key == x.lc[0][1].key
        c.oblige("forward value = factor * x", y.lc[0][0] == want_f if ok_f else z3.BoolVal(False), info={**info, "claim": "f"})
        g = x.grad
        ok_b = g is not None and len(g) == 1 and g[0][1].key == G.lc[0][1].key
        c.oblige("gradient = factor * upstream", g[0][0] == want_b if ok_b else z3.BoolVal(False), info={**info, "claim": "b"})
        c.oblige("shape/dtype preserved", z3.BoolVal(y.dtype == x.dtype and len(y.shape) == len(x.shape)), info={**info, "claim": "sd"})
        c.oblige("input not modified", z3.BoolVal(x.version == 0), info={**info, "claim": "mod"})
        c.oblige("control: forward factor is 1 for scale_fwd (must be sat)" if which == "fwd" else "control: gradient factor is 1 for scale_bwd (must be sat)",
                 (y.lc[0][0] if which == "fwd" else g[0][0]) == 1, kind="control")

    return h


def replay_primitive(obname: str, model: Dict[str, Any], info: Any) -> Tuple[bool, str]:
    from unit_scaling.scale import scale_bwd, scale_fwd
    s = float(model.get("s", 0.0))
    shape = tuple(int(model.get(f"b{i}", 2 + i)) for i in range(info["rank"]))
    x = torch.randn(shape, dtype=torch.float64, requires_grad=True)
    x0 = x.detach().clone()
    y = (scale_fwd if info["which"] == "fwd" else scale_bwd)(x, s)
    g = torch.randn(shape, dtype=torch.float64)
    (gx,) = torch.autograd.grad(y, x, g)
    wf, wb = (s, 1.0) if info["which"] == "fwd" else (1.0, s)
    bad = []
    if not torch.allclose(y.detach(), wf * x0, rtol=1e-12, atol=0):
        bad.append(f"forward is not {wf} * x")
    if not torch.allclose(gx, wb * g, rtol=1e-12, atol=0):
        bad.append(f"gradient is not {wb} * upstream")
    if not torch.equal(x.detach(), x0):
        bad.append("input modified")
    return bool(bad), f"scale_{info['which']}(x{list(shape)}, {s!r}): " + "; ".join(bad or ["ok"])


def task_primitive(which: str, rank: int, dtype: str, timeout: float) -> List[Dict[str, Any]]:
    torch.set_num_threads(1)
    return discharge("C02", f"scale_{which}[rank={rank},{dtype}]", h_primitive(which, rank, dtype), replay_primitive, timeout)


HISTORY = ("int64", "bfloat16", "float16", "float32", "float64")
HDT = {"int64": torch.int64, **{k: fo.DT[k] for k in HISTORY[1:]}}


def h_history(which: str):
    """One process, one concrete factor, the primitive applied to tensors of dtypes of increasing precision (an integer tensor first):
    each call must still scale by exactly that factor, and no factor stored for an earlier call may reach a later gradient."""
    def h(c: Ctx) -> None:
        from unit_scaling.scale import scale_bwd, scale_fwd
        from ..sym.tensor import Mode
        mk = fo.SymMk(c)
        s = 0.3
        with Session():
            for dt in HISTORY:
                info = {"which": which, "history": True, "dtype": dt}
                x = STensor.leaf(f"x_{dt}", tuple(fo._lead(mk, 2)), HDT[dt], requires_grad=HDT[dt].is_floating_point)
                y = (scale_fwd if which == "fwd" else scale_bwd)(x, s)
                if not HDT[dt].is_floating_point:
                    continue
                G = STensor.leaf(f"G_{dt}", y.shape, y.dtype)
                y.backward(G)
                g = x.grad
                ok_b = g is not None and len(g) == 1 and g[0][1].key == G.lc[0][1].key
                want_b = z3.RealVal(1) if which == "fwd" else fo_q(s)
                c.oblige(f"{dt} after lower precisions: gradient = factor * upstream", g[0][0] == want_b if ok_b else z3.BoolVal(False), info={**info, "claim": "b"})
            ev = sorted(set(Mode.events))
            c.oblige("every factor is carried in the precision of the tensor it multiplies (none stored for an earlier call, in another dtype, is reused)",
                     z3.BoolVal(not ev), info={"which": which, "history": True, "mismatch": "; ".join(ev)})

    return h


def fo_q(x: float) -> Any:
    from fractions import Fraction
    f = Fraction(x)
    return z3.Q(f.numerator, f.denominator)


def replay_history(obname: str, model: Dict[str, Any], info: Any) -> Tuple[bool, str]:
    from unit_scaling.scale import scale_bwd, scale_fwd
    s, which = 0.3, info["which"]
    fn = scale_fwd if which == "fwd" else scale_bwd
    gen = torch.Generator().manual_seed(0)
    bad = []
    for dt in HISTORY:
        if dt == "int64":
            fn(torch.arange(6).reshape(2, 3), s)
            continue
        x = torch.randn(2, 3, generator=gen, dtype=torch.float64).to(HDT[dt]).requires_grad_(True)
        y = fn(x, s)
        g = torch.randn(2, 3, generator=gen, dtype=torch.float64).to(HDT[dt])
        (gx,) = torch.autograd.grad(y, x, g)
        want = (g.double() * (1.0 if which == "fwd" else s)).to(HDT[dt])  # the factor applied in the tensor's own precision
        if not torch.allclose(gx.double(), want.double(), rtol=4 * torch.finfo(HDT[dt]).eps, atol=0):
            bad.append(f"{dt}: gradient is not {s if which != 'fwd' else 1.0} * upstream to {dt} rounding (max rel err "
                       f"{((gx.double() - want.double()).abs().max() / want.double().abs().max()).item():.3g})")
    return bool(bad), f"scale_{which}(x, {s}) on dtypes in the order {HISTORY}: " + "; ".join(bad or ["exact in every dtype"])


def task_history(which: str, timeout: float) -> List[Dict[str, Any]]:
    torch.set_num_threads(1)
    return discharge("C02", f"scale_{which}[dtype history]", h_history(which), replay_history, timeout, base_info={"which": which, "history": True})


FX_FUNS = {
    "scale_fwd(2.5)": lambda U, sc: (lambda x: sc.scale_fwd(x, 2.5)), "scale_fwd(-0.75)": lambda U, sc: (lambda x: sc.scale_fwd(x, -0.75)),
    "scale_fwd(0)": lambda U, sc: (lambda x: sc.scale_fwd(x, 0.0)), "scale_bwd(2.5)": lambda U, sc: (lambda x: sc.scale_bwd(x, 2.5)),
    "scale_bwd(-3)": lambda U, sc: (lambda x: sc.scale_bwd(x, -3.0)),
    "gelu(mult=2)": lambda U, sc: (lambda x: U.gelu(x, mult=2.0)), "gelu(tanh,gmean)": lambda U, sc: (lambda x: U.gelu(x, mult=0.5, constraint="gmean", approximate="tanh")),
    "silu": lambda U, sc: (lambda x: U.silu(x)), "silu(mult=3,None)": lambda U, sc: (lambda x: U.silu(x, mult=3.0, constraint=None)),
    "dropout(0.2)": lambda U, sc: (lambda x: U.dropout(x, 0.2)),
    "residual(0.3)": lambda U, sc: (lambda x: U.residual_add(*U.residual_split(x, 0.3), 0.3)),
    "residual_apply(tanh,2)": lambda U, sc: (lambda x: U.residual_apply(torch.tanh, x, 2.0)),
}


def h_fx(name: str):
    """auxiliary (the decidable fragment of C20): plain torch.fx symbolic tracing - the Proxy branches of
    _ScaledGrad.forward - reproduces the forward VALUES of eager execution, for all data and shapes"""

    def h(c: Ctx) -> None:
        import torch.fx as fx
        import unit_scaling.functional as U
        from unit_scaling import scale as sc
        from ..fxsym.interp import SymInterp
        from .c06 import _eq_lc
        f = FX_FUNS[name](U, sc)
        gm = fx.symbolic_trace(f)  # traced before the session: the library's own Proxy special cases run
        mk = fo.SymMk(c)
        with Session():
            x = mk.tensor("x", fo._lead(mk, 2), torch.float32)
            out_fx = SymInterp(gm, {"x": x}).run(x)
            out_eager = f(x)
            _eq_lc(c, "fx-traced graph reproduces the eager forward value", out_fx.lc, out_eager.lc, {"fx": name, "claim": "fx"})

    return h


def replay_fx(obname: str, model: Dict[str, Any], info: Any) -> Tuple[bool, str]:
    import torch.fx as fx
    import unit_scaling.functional as U
    from unit_scaling import scale as sc
    f = FX_FUNS[info["fx"]](U, sc)
    gm = fx.symbolic_trace(f)
    x = torch.randn(3, 4, dtype=torch.float64)
    torch.manual_seed(0)
    a = gm(x)
    torch.manual_seed(0)
    b = f(x)
    return not torch.allclose(a, b, rtol=1e-12, atol=0), f"fx.symbolic_trace({info['fx']}): max abs diff {(a - b).abs().max().item():.3g}"


def task_fx(name: str) -> List[Dict[str, Any]]:
    torch.set_num_threads(1)
    return discharge("C02", f"fx-trace[{name}]", h_fx(name), replay_fx, 20, base_info={"fx": name}, skip_definedness=True)


def run(rep: Report, only: str = "") -> None:
    from unit_scaling import scale
    timeout = 120 if rep.tier == "thorough" else 40
    tasks = []
    for op in fo.SPECS:
        for cfg in fo.configs(op, rep.tier):
            tasks.append((fo.run_config, ("C02", cfg, ["C02"], timeout)))
    for which in ("fwd", "bwd"):
        for rank in ((0, 1, 2, 3) if rep.tier == "thorough" else (0, 2)):
            for dt in DTS:
                tasks.append((task_primitive, (which, rank, dt, timeout)))
    tasks += [(task_fx, (n,)) for n in FX_FUNS]
    tasks += [(task_history, (w, timeout)) for w in ("fwd", "bwd")]
    if only:
        tasks = [t for t in tasks if only in repr(t[1])]
    rep.extend(run_tasks(tasks))
    rep.functions = fo.encoded_functions()
    common_meta(rep)
    rep.bounds["fx"] = ("auxiliary obligation (the only decidable fragment of C20, not claimed as C20): torch.fx.symbolic_trace of scale_fwd/scale_bwd/gelu/silu/dropout/"
                        "residual ops, interpreted symbolically, reproduces the eager forward value for all data and shapes")
    rep.bounds["dtype history"] = ("scale_fwd / scale_bwd with the concrete factor 0.3 applied, in one process, to int64, bfloat16, float16, float32, float64 tensors in that order: "
                                   "exact factor per call + no scalar tensor of a dtype that cannot hold the factor to the precision of the tensor it multiplies")
    rep.bounds["primitives"] = "scale_fwd/scale_bwd with a symbolic real factor in [-1000, 1000] (0 and negatives included), ranks 0-3, four dtypes"
    rep.sample({"harness": "linear[rank=2,bias=True,constraint=None,...]", "obligation": "grad[w] = a * reference gradient",
                "meaning": "the library's weight gradient unifies with a * vjp[linear,1](x,w,b; G) for a free upstream gradient G; a > 0"})


def replay(data: Dict[str, Any]) -> Tuple[bool, str]:
    info = data.get("info") or {}
    if "fx" in info:
        return replay_fx(data["obligation"], data["model"], info)
    if info.get("history"):
        return replay_history(data["obligation"], data["model"], info)
    if "which" in info:
        return replay_primitive(data["obligation"], data["model"], info)
    return fo.replay_functional(data["obligation"], data["model"], info)
