"""C12 - width-independent updates: forward factor (real U.linear / linear_readout / conv1d) x learning-rate factor
(real library Adam/AdamW on a parameter of symbolic shape, tag and depth read off the real modules) x fan-in
= eta / sqrt(depth), for every width."""
from __future__ import annotations

from typing import Any, Dict, List, Tuple

import torch
import torch.nn.functional as F
import z3

from ..par import run_tasks
from ..report import CONCRETE, INCONCLUSIVE, Report, describe_function, lazy
from ..sym.runner import discharge
from ..sym.scalar import Ctx, _sreal, approx
from ..sym.tensor import TF, Session, STensor
from . import funcops as fo
from . import optimops as oo

KINDS = ["Linear", "LinearReadout", "Conv1d"]


def module_facts(kind: str, container: bool, constraint: Any) -> Dict[str, Any]:
    """Tag, depth and configured constraint of the real module (constructed concretely at a small size)."""
    import unit_scaling as uu
    kw = {} if constraint == fo.DEFAULT else {"constraint": constraint}
    if kind == "Conv1d":
        m = uu.Conv1d(3, 4, 2, **kw)
    else:
        m = getattr(uu, kind)(3, 4, **kw)
    depth = None
    if container:
        seq = uu.DepthSequential(m, uu.Linear(4, 4), uu.Linear(4, 4))
        depth = len(seq)
        assert m.weight.mup_scaling_depth == depth
    return {"tag": m.weight.mup_type, "depth": depth, "constraint": m.constraint, "has_depth": m.weight.mup_scaling_depth is not None}


def h_width(kind: str, container: bool, constraint: Any, opt: str, mode: str = "alone"):
    def h(c: Ctx) -> None:
        import unit_scaling.functional as U
        facts = module_facts(kind, container, constraint)
        info = {"kind": kind, "container": container, "constraint": constraint, "opt": opt, "mode": mode}
        with Session():
            fi, fo_ = c.dim("fan_in", 1, 4096, sample=5), c.dim("fan_out", 1, 4096, sample=3)
            eta = c.real("eta", 1e-4, 1)
            if kind == "Conv1d":
                k = c.dim("kernel", 1, 9, sample=3)
                x = STensor.leaf("x", (1, fi, k), torch.float64)  # one output position
                wshape: Tuple[Any, ...] = (fo_, fi, k)
                terms = fi * k
            else:
                k = 1
                x = STensor.leaf("x", (1, fi), torch.float64)
                wshape = (fo_, fi)
                terms = fi
            w = STensor.leaf("w", wshape, torch.float64, requires_grad=True)
            w.mup_type = facts["tag"]
            w.mup_scaling_depth = None
            depth = None
            if facts["has_depth"]:
                depth = c.dim("depth", 1, 64, sample=3)
                w.mup_scaling_depth = oo.SDepth(depth, 3)
            cons = facts["constraint"]
            if kind == "Linear":
                out, ref = U.linear(x, w, None, cons), F.linear(x, w, None)
            elif kind == "LinearReadout":
                out, ref = U.linear_readout(x, w, None, cons), F.linear(x, w, None)
            else:
                out, ref = U.conv1d(x, w, None, constraint=cons), TF.conv1d(x, w, None)
            kf, mism, pairs = fo._ratio(c, "output", out.lc, ref.lc)
            if mism:
                c.oblige("forward = c_out * PyTorch", z3.BoolVal(False), info={**info, "claim": "e2e", "mismatch": mism})
                return
            c.oblige("forward = c_out * PyTorch", fo._eq_claim(pairs), info={**info, "claim": "e2e"})
            G = STensor.leaf("G", out.shape, out.dtype)
            out.backward(G)
            w_g = w.grad
            w.grad = None
            ref.backward(G)
            ka, gm, gp = fo._ratio(c, "grad[w]", w_g, w.grad)
            c.oblige("weight gradient = a_w * PyTorch's with a_w > 0 (so sign(grad) = sign(g_j) x_i)", z3.And(fo._eq_claim(gp), ka > 0) if not gm else z3.BoolVal(False),
                     info={**info, "claim": "e2e"})
            cfg = {"api": opt, "structure": "bare", "lr": "tensor" if mode == "model-tensor" else "float", "independent_wd": True, "params": []}
            if mode == "alone":
                params, eta_arg = [w], eta
            else:
                # the optimizer is given the whole model, as in `Adam(model.parameters(), lr)`: sibling unit-scaling parameters share
                # the learning rate with `w` (a 0-dim tensor in mode model-tensor) and come before and after it
                sib_w = STensor.leaf("sib_w", (c.dim("sib_out", 1, 4096, sample=4), c.dim("sib_in", 1, 4096, sample=6)), torch.float64, requires_grad=True)
                sib_b = STensor.leaf("sib_b", (c.dim("sib_len", 1, 4096, sample=4),), torch.float64, requires_grad=True)
                for sib, tag in ((sib_w, "weight"), (sib_b, "bias")):
                    sib.mup_type = tag
                    sib.mup_scaling_depth = w.mup_scaling_depth
                params = [sib_w, w, sib_b]
                eta_arg = STensor.scalar(eta, torch.float64) if mode == "model-tensor" else eta
            groups = oo._call_api(cfg, params, eta_arg, 0.0)
            mine = [g for g in groups if len(g["params"]) == 1 and g["params"][0] is w]
            if len(mine) != 1:
                c.oblige("the layer's weight has exactly one optimizer group", z3.BoolVal(False), info={**info, "claim": "e2e", "mismatch": f"{len(mine)} groups"})
                return
            lr_w = oo.lr_value(mine[0]["lr"])
            lhs = kf * lr_w * _sreal(terms).z
            if depth is None:
                rhs = eta.z
            else:
                rd = c.fresh("sqrt_depth")
                c.assumes += [rd > 0, rd * rd == _sreal(depth).z]
                rhs = eta.z / rd
            c.oblige("|delta y_j| = c_out * lr_w * (fan_in * k) = eta / sqrt(depth)", lhs == rhs, info={**info, "claim": "e2e"}, tol=approx(lhs, rhs))
            c.oblige("control: update grows with fan_in (must be sat)", lhs == rhs * _sreal(fi).z, kind="control")

    return h


def end_to_end(kind: str, container: bool, constraint: Any, opt: str, fan_in: int, fan_out: int, k: int, eta: float, seed: int = 0,
               mode: str = "alone") -> Tuple[bool, str]:
    """One real Adam/AdamW step (eps=0, no decay) on the real module with +-1 inputs: every output moves by eta/sqrt(depth)."""
    import unit_scaling as uu
    import unit_scaling.optim as uo
    gen = torch.Generator().manual_seed(seed)
    kw = {} if constraint == fo.DEFAULT else {"constraint": constraint}
    if kind == "Conv1d":
        m = uu.Conv1d(fan_in, fan_out, k, **kw).double()
        x = (torch.randint(0, 2, (1, fan_in, k), generator=gen) * 2 - 1).double()
    else:
        m = getattr(uu, kind)(fan_in, fan_out, **kw).double()
        x = (torch.randint(0, 2, (1, fan_in), generator=gen) * 2 - 1).double()
    depth = 1.0
    if container:
        sibs = [uu.Linear(2, 2, bias=True).double(), m, uu.Linear(2, 2).double()]
        # every constructor form of the depth containers (positional modules, one OrderedDict of named modules, a module list), chosen by the sizes
        form = (fan_in + fan_out + k) % 3
        if form == 0:
            seq = uu.DepthSequential(*sibs)
        elif form == 1:
            from collections import OrderedDict
            seq = uu.DepthSequential(OrderedDict((f"layer{j}", l_) for j, l_ in enumerate(sibs)))
        else:
            seq = uu.DepthModuleList(sibs)
        depth = float(len(seq))
    cls = getattr(uo, opt)
    if mode == "alone":
        o = cls([m.weight], lr=eta, eps=0.0, weight_decay=0.0)
    else:
        # the whole model (the layer, and its siblings when it sits in a depth container), lr a float or a 0-dim tensor
        model = seq if container else torch.nn.ModuleList([uu.Linear(3, 2, bias=True).double(), m])
        lr_arg = torch.tensor(eta, dtype=torch.float64) if mode == "model-tensor" else eta
        o = cls(model.parameters(), lr=lr_arg, eps=0.0, weight_decay=0.0)
        if isinstance(lr_arg, torch.Tensor) and float(lr_arg) != eta:
            return False, f"{kind} {opt} mode={mode}: the caller's lr tensor was changed from {eta!r} to {float(lr_arg)!r}"
    y0 = m(x)
    g = torch.randn(y0.shape, generator=gen, dtype=torch.float64)
    g = torch.where(g.abs() < 1e-3, torch.ones_like(g), g)
    y0.backward(g)
    o.step()
    y1 = m(x)
    d = (y1 - y0).detach().abs().reshape(-1)
    want = eta / depth ** 0.5
    ok = bool(((d - want).abs() <= 1e-9 * want).all())
    return ok, f"{kind} container={container} constraint={constraint} {opt} mode={mode} fan_in={fan_in} fan_out={fan_out} k={k} eta={eta}: |dy| in [{d.min().item()!r}, {d.max().item()!r}], expected {want!r}"


def replay_width(obname: str, model: Dict[str, Any], info: Any) -> Tuple[bool, str]:
    fi, fo_ = min(int(model.get("fan_in", 5)), 512), min(int(model.get("fan_out", 3)), 64)
    k = int(model.get("kernel", 3)) if info["kind"] == "Conv1d" else 1
    eta = float(model.get("eta", 0.1))
    try:
        ok, desc = end_to_end(info["kind"], info["container"], info["constraint"], info["opt"], fi, fo_, k, eta, mode=info.get("mode", "alone"))
    except Exception as e:
        return True, f"{info}: raises {type(e).__name__}: {e}"
    return (not ok), desc


def task_width(kind: str, container: bool, constraint: Any, opt: str, timeout: float, mode: str = "alone") -> List[Dict[str, Any]]:
    torch.set_num_threads(1)
    tag = "" if mode == "alone" else f",{mode}"
    return discharge("C12", f"{kind}[container={container},constraint={constraint},{opt}{tag}]", h_width(kind, container, constraint, opt, mode), replay_width, timeout,
                     base_info={"kind": kind, "container": container, "constraint": constraint, "opt": opt, "mode": mode})


def task_contract(kind: str, container: bool, constraint: Any, opt: str, sizes: List[Tuple[int, int, int, float]], mode: str = "alone") -> List[Dict[str, Any]]:
    """Concrete validation of the two stub contracts the symbolic claim composes: Adam's first step with eps=0 is
    -lr*sign(grad), and the module computes its functional form (C08).  Labelled concrete."""
    torch.set_num_threads(1)
    bad = []
    for fi, fo_, k, eta in sizes:
        ok, desc = end_to_end(kind, container, constraint, opt, fi, fo_, k if kind == "Conv1d" else 1, eta, mode=mode)
        if not ok:
            bad.append(desc)
    name = f"contract/{kind}[container={container},constraint={constraint},{opt}" + ("" if mode == "alone" else f",{mode}") + "]"
    if bad:
        return [{"type": "violation", "key": f"C12/{name}", "what": bad[0],
                 "replay": {"kind": "contract", "args": [kind, container, constraint, opt], "sizes": sizes, "mode": mode}}]
    return [{"type": "obligation", "name": name, "status": CONCRETE, "queries": 0, "kind": "contract-validation",
             "detail": f"real module + real library optimizer, one step, sizes {sizes}: every |dy_j| = eta/sqrt(depth)"}]


def run(rep: Report, only: str = "") -> None:
    import unit_scaling.functional as U
    import unit_scaling.optim as uo
    thorough = rep.tier == "thorough"
    timeout = 120 if thorough else 40
    tasks: List[Any] = []
    sizes = [(1, 1, 1, 0.1), (7, 3, 2, 0.01), (64, 5, 9, 1.0), (300, 2, 3, 1e-4)] + ([(4096, 2, 1, 0.5), (1024, 4096 // 64, 5, 0.3)] if thorough else [])
    for kind in KINDS:
        for container in (False, True):
            for constraint in (fo.DEFAULT, None):
                for opt in ("Adam", "AdamW"):
                    tasks.append((task_width, (kind, container, constraint, opt, timeout)))
                    tasks.append((task_contract, (kind, container, constraint, opt, sizes)))
                    # the optimizer over the whole model, learning rate a float or a 0-dim tensor shared by all its parameters
                    for mode in (("model-tensor", "model-float") if (thorough or constraint is None) else ("model-tensor",)):
                        tasks.append((task_width, (kind, container, constraint, opt, timeout, mode)))
                        tasks.append((task_contract, (kind, container, constraint, opt, sizes[:3], mode)))
    if only:
        tasks = [t for t in tasks if only in repr(t[1])]
    rep.extend(run_tasks(tasks))
    rep.functions = [describe_function(f) for f in (lazy(lambda: U.linear), lazy(lambda: U.linear_readout), lazy(lambda: U.conv1d), lazy(lambda: uo.lr_scale_func_adam), lazy(lambda: uo.scaled_parameters), lazy(lambda: uo.Adam.__init__), lazy(lambda: uo.AdamW.__init__))]
    rep.bounds = {"widths": "fan_in, fan_out symbolic in [1,4096], kernel in [1,9], depth None or symbolic in [1,64], eta in [1e-4,1]",
                  "layers": "Linear, LinearReadout, Conv1d (single output position) at default and None constraint, inside/outside DepthSequential; Adam and AdamW",
                  "derivation": "dy_j = c_out * sum_i x_i * (-lr sign(grad_ji)), grad_ji = a_w g_j x_i with a_w > 0 (proved), x_i^2 = 1  =>  |dy_j| = c_out * lr * fan_in*k",
                  "optimizer argument": "the layer's weight alone, or the whole model (sibling weight and bias sharing the learning rate, before and after it) with eta a float or a 0-dim tensor",
                  "outside": "the Adam update rule itself is torch code: used as the documented first-step contract (eps=0: -lr*sign(grad)), validated concretely on every run"}
    rep.assumptions = ["Adam/AdamW first step with eps=0, no weight decay: delta w = -lr * sign(grad) (contract validated per run with the real optimizer on real modules)",
                       "tag/depth/constraint of the layer are read off the real module constructed concretely; the solver quantifies over widths, kernel, depth and eta"]
    rep.trusted = ["z3 NRA", "vf/sym/tensor.py"]
    rep.sample({"harness": "Conv1d[container=True,constraint=None,AdamW]", "obligation": "|delta y_j| = c_out * lr_w * (fan_in * k) = eta / sqrt(depth)"})


def replay(data: Dict[str, Any]) -> Tuple[bool, str]:
    if data.get("kind") == "contract":
        a = data["args"]
        for fi, fo_, k, eta in data["sizes"]:
            ok, desc = end_to_end(a[0], a[1], a[2], a[3], fi, fo_, k if a[0] == "Conv1d" else 1, eta, mode=data.get("mode", "alone"))
            if not ok:
                return True, desc
        return False, "ok"
    return replay_width(data["obligation"], data["model"], data.get("info") or {})
