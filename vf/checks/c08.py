"""C08 - modules = functional form, options honoured, initial state and tags.

The real `forward` of every module class is executed symbolically on a proxy `self` (parameters -> opaque symbolic
tensors of symbolic shape, numeric options -> symbolic values, everything else falls through to the really
constructed module) and unified - values and all parameter gradients - with an independently written functional
form that uses the *configured* options.  Constructors run concretely per discrete option (exhaustive)."""
from __future__ import annotations

import inspect
import itertools
from typing import Any, Callable, Dict, List, Optional, Sequence, Tuple

import torch
import torch.nn.functional as F
import z3
from torch import nn

from ..par import run_tasks
from ..report import CONCRETE, INCONCLUSIVE, Report, describe_function, lazy
from ..sym.runner import discharge
from ..sym.scalar import Ctx, SInt, SReal, _sreal, approx
from ..sym.tensor import EINOPS, LC, TF, HarnessError, Session, STensor, unify
from . import funcops as fo
from .c06 import _eq_lc
from .c09 import SymTag, _REG

BINARY = fo.BINARY


class Proxy:
    """`self` for a real forward(): overridden attributes are symbolic, the rest is the real module's."""

    def __init__(self, mod: nn.Module, over: Dict[str, Any], children: Optional[Dict[str, "Proxy"]] = None):
        object.__setattr__(self, "_mod", mod)
        object.__setattr__(self, "_over", over)
        object.__setattr__(self, "_children", children or {})

    def __getattr__(self, name: str) -> Any:
        over, mod, ch = object.__getattribute__(self, "_over"), object.__getattribute__(self, "_mod"), object.__getattribute__(self, "_children")
        if name in over:
            return over[name]
        if name in ch:
            return ch[name]
        v = getattr(mod, name)
        import types
        if isinstance(v, types.MethodType) and v.__self__ is mod and getattr(type(mod), name, None) is not None \
                and getattr(v.__func__, "__module__", "").startswith("unit_scaling"):
            # a helper method of the library class (e.g. a forward split into private methods): it must see the proxy as `self`
            return types.MethodType(v.__func__, self)
        if isinstance(v, (nn.Parameter, torch.Tensor)):
            raise HarnessError(f"tensor attribute {type(mod).__name__}.{name} is not mapped to a symbolic tensor")
        if isinstance(v, nn.Module):
            raise HarnessError(f"sub-module {type(mod).__name__}.{name} is not mapped to a proxy")
        return v

    def __setattr__(self, name: str, value: Any) -> None:
        object.__getattribute__(self, "_over")[name] = value

    def __call__(self, *a: Any, **k: Any) -> Any:
        return type(object.__getattribute__(self, "_mod")).forward(self, *a, **k)

    def __iter__(self) -> Any:
        return iter(object.__getattribute__(self, "_children").values())

    def __len__(self) -> int:
        return len(object.__getattribute__(self, "_children"))


def tagged(t: Any, real: Any) -> Any:
    """carry the real parameter's tags over to the symbolic stand-in"""
    if isinstance(t, STensor) and real is not None:
        for a in ("mup_type", "mup_scaling_depth"):
            if hasattr(real, a):
                setattr(t, a, getattr(real, a))
    return t


# ============================================================================================ module specs
# Each spec: configs(tier) -> list of cfg ; build(cfg) -> real module (concrete, small) ;
#            sym(mod, mk, cfg) -> (proxy-or-module P, inputs)  [mk decides symbolic vs concrete] ; oracle(P, inputs, cfg) -> tensor
def _mkparam(mk: Any, name: str, shape: Sequence[Any], real: Any, dtype: torch.dtype = torch.float32) -> Any:
    return tagged(mk.tensor(name, shape, dtype), real)


class Spec:
    name = ""
    cls_name = ""

    def configs(self, tier: str) -> List[Dict[str, Any]]:
        raise NotImplementedError

    def build(self, cfg: Dict[str, Any], sizes: Optional[Dict[str, int]] = None) -> nn.Module:
        raise NotImplementedError

    def sym(self, mod: nn.Module, mk: Any, cfg: Dict[str, Any]) -> Tuple[Any, Dict[str, Any]]:
        raise NotImplementedError

    def oracle(self, P: Any, inp: Dict[str, Any], cfg: Dict[str, Any]) -> Any:
        raise NotImplementedError

    def params(self, P: Any) -> Dict[str, Any]:
        return {}

    def twin(self, mod: nn.Module) -> Optional[nn.Module]:
        return None

    def attrs(self, cfg: Dict[str, Any]) -> Dict[str, Any]:
        """constructor arguments that must be stored verbatim on the module (sentinel values)"""
        return {}


def _sz(sizes: Optional[Dict[str, int]], k: str, d: int) -> int:
    return int((sizes or {}).get(k, d))


class ActSpec(Spec):
    def __init__(self, cls_name: str):
        self.cls_name = self.name = cls_name

    def configs(self, tier: str) -> List[Dict[str, Any]]:
        out = []
        for c in [None, fo.DEFAULT] + BINARY:
            for ap in (["none", "tanh"] if self.cls_name == "GELU" else ["none"]):
                out.append({"constraint": c, "approximate": ap, "rank": 2})
        return out

    def build(self, cfg: Dict[str, Any], sizes: Optional[Dict[str, int]] = None) -> nn.Module:
        import unit_scaling as uu
        kw: Dict[str, Any] = {"mult": float((sizes or {}).get("mult", 1.75))}
        if cfg["constraint"] != fo.DEFAULT:
            kw["constraint"] = cfg["constraint"]
        if self.cls_name == "GELU":
            kw["approximate"] = cfg["approximate"]
        if self.cls_name == "Softmax":
            kw["dim"] = cfg.get("dim", -1)
        return getattr(uu, self.cls_name)(**kw)

    def attrs(self, cfg: Dict[str, Any]) -> Dict[str, Any]:
        a = {"mult": 1.75}
        if cfg["constraint"] != fo.DEFAULT:
            a["constraint"] = cfg["constraint"]
        return a

    def sym(self, mod: nn.Module, mk: Any, cfg: Dict[str, Any]) -> Tuple[Any, Dict[str, Any]]:
        x = mk.tensor("x", fo._lead(mk, cfg["rank"]), torch.float32)
        if mk.mode == "sym":
            return Proxy(mod, {"mult": mk.real("mult", 0, 2 ** 10, lo_strict=True)}), {"x": x}
        return mod, {"x": x}

    def oracle(self, P: Any, inp: Dict[str, Any], cfg: Dict[str, Any]) -> Any:
        import unit_scaling.functional as U
        if self.cls_name == "GELU":
            return U.gelu(inp["x"], mult=P.mult, constraint=P.constraint, approximate=P.approximate)
        if self.cls_name == "SiLU":
            return U.silu(inp["x"], mult=P.mult, constraint=P.constraint)
        return U.softmax(inp["x"], dim=P.dim, mult=P.mult, constraint=P.constraint)

    def twin(self, mod: nn.Module) -> Optional[nn.Module]:
        if self.cls_name == "GELU":
            return nn.GELU(approximate=mod.approximate)
        if self.cls_name == "SiLU":
            return nn.SiLU()
        return nn.Softmax(dim=mod.dim)


class SoftmaxSpec(ActSpec):
    def configs(self, tier: str) -> List[Dict[str, Any]]:
        return [{"constraint": c, "approximate": "none", "rank": 3, "dim": d} for c in [None, fo.DEFAULT, "gmean", "to_grad_input_scale"] for d in (-1, 0, 1)]


class DropoutSpec(Spec):
    name = cls_name = "Dropout"

    def configs(self, tier: str) -> List[Dict[str, Any]]:
        return [{"training": t, "rank": 2} for t in (True, False)]

    def build(self, cfg: Dict[str, Any], sizes: Optional[Dict[str, int]] = None) -> nn.Module:
        import unit_scaling as uu
        m = uu.Dropout(p=float((sizes or {}).get("p", 0.3)))
        m.train(cfg["training"])
        return m

    def attrs(self, cfg: Dict[str, Any]) -> Dict[str, Any]:
        return {"p": 0.3}

    def sym(self, mod: nn.Module, mk: Any, cfg: Dict[str, Any]) -> Tuple[Any, Dict[str, Any]]:
        x = mk.tensor("x", fo._lead(mk, cfg["rank"]), torch.float32)
        if mk.mode == "sym":
            return Proxy(mod, {"p": mk.real("p", 0, 1, hi_strict=True)}), {"x": x}
        return mod, {"x": x}

    def oracle(self, P: Any, inp: Dict[str, Any], cfg: Dict[str, Any]) -> Any:
        import unit_scaling.functional as U
        return U.dropout(inp["x"], P.p, P.training)

    def twin(self, mod: nn.Module) -> Optional[nn.Module]:
        t = nn.Dropout(mod.p)
        t.train(mod.training)
        return t


class LinearSpec(Spec):
    def __init__(self, readout: bool):
        self.readout = readout
        self.name = self.cls_name = "LinearReadout" if readout else "Linear"

    def configs(self, tier: str) -> List[Dict[str, Any]]:
        return [{"bias": b, "constraint": c, "rank": r} for b in (True, False) for c in [None, fo.DEFAULT] + BINARY for r in ((1, 2) if c in (None, fo.DEFAULT) else (2,))]

    def build(self, cfg: Dict[str, Any], sizes: Optional[Dict[str, int]] = None) -> nn.Module:
        import unit_scaling as uu
        kw = {} if cfg["constraint"] == fo.DEFAULT else {"constraint": cfg["constraint"]}
        return getattr(uu, self.cls_name)(_sz(sizes, "fan_in", 5), _sz(sizes, "fan_out", 3), bias=cfg["bias"], **kw)

    def attrs(self, cfg: Dict[str, Any]) -> Dict[str, Any]:
        return {} if cfg["constraint"] == fo.DEFAULT else {"constraint": cfg["constraint"]}

    def sym(self, mod: nn.Module, mk: Any, cfg: Dict[str, Any]) -> Tuple[Any, Dict[str, Any]]:
        if mk.mode != "sym":
            x = mk.tensor("x", tuple(mk.dim(f"b{i}", sample=2 + i) for i in range(cfg["rank"])) + (mod.in_features,), torch.float32)
            return mod, {"x": x}
        fi, fo_ = mk.dim("fan_in", sample=5), mk.dim("fan_out", sample=3)
        x = mk.tensor("x", fo._lead(mk, cfg["rank"]) + (fi,), torch.float32)
        over = {"weight": _mkparam(mk, "w", (fo_, fi), mod.weight), "bias": _mkparam(mk, "b", (fo_,), mod.bias) if mod.bias is not None else None}
        return Proxy(mod, over), {"x": x}

    def oracle(self, P: Any, inp: Dict[str, Any], cfg: Dict[str, Any]) -> Any:
        import unit_scaling.functional as U
        fn = U.linear_readout if self.readout else U.linear
        return fn(inp["x"], P.weight, P.bias, P.constraint)

    def params(self, P: Any) -> Dict[str, Any]:
        return {"weight": P.weight, "bias": P.bias}

    def twin(self, mod: nn.Module) -> Optional[nn.Module]:
        t = nn.Linear(mod.in_features, mod.out_features, bias=mod.bias is not None).to(mod.weight.dtype)
        t.weight = nn.Parameter(mod.weight.detach().clone())
        if mod.bias is not None:
            t.bias = nn.Parameter(mod.bias.detach().clone())
        return t


class ConvSpec(Spec):
    name = cls_name = "Conv1d"

    def configs(self, tier: str) -> List[Dict[str, Any]]:
        out = []
        for pm in ("zeros", "reflect", "replicate", "circular"):
            for b in (True, False):
                for c in ([None, fo.DEFAULT] + BINARY if pm == "zeros" and b else [None, fo.DEFAULT, "gmean"]):
                    out.append({"padding_mode": pm, "bias": b, "constraint": c, "rank": 1})
        return out

    def build(self, cfg: Dict[str, Any], sizes: Optional[Dict[str, int]] = None) -> nn.Module:
        import unit_scaling as uu
        kw = {} if cfg["constraint"] == fo.DEFAULT else {"constraint": cfg["constraint"]}
        G = _sz(sizes, "groups", 2)
        return uu.Conv1d(_sz(sizes, "fan_in", 3) * G, _sz(sizes, "out_per_group", 2) * G, _sz(sizes, "kernel", 3), stride=_sz(sizes, "stride", 2),
                         padding=_sz(sizes, "padding", 1), dilation=_sz(sizes, "dilation", 2), groups=G, bias=cfg["bias"], padding_mode=cfg["padding_mode"], **kw)

    def attrs(self, cfg: Dict[str, Any]) -> Dict[str, Any]:
        a: Dict[str, Any] = {"stride": 2, "padding": 1, "dilation": 2, "groups": 2, "padding_mode": cfg["padding_mode"]}
        if cfg["constraint"] != fo.DEFAULT:
            a["constraint"] = cfg["constraint"]
        return a

    def sym(self, mod: nn.Module, mk: Any, cfg: Dict[str, Any]) -> Tuple[Any, Dict[str, Any]]:
        if mk.mode != "sym":
            L = mk.dim("seq", sample=11)
            x = mk.tensor("x", tuple(mk.dim(f"b{i}", sample=2 + i) for i in range(cfg["rank"])) + (mod.in_channels, L), torch.float32)
            return mod, {"x": x}
        G, fi, og, k = mk.dim("groups", 1, 4, sample=2), mk.dim("fan_in", sample=3), mk.dim("out_per_group", sample=2), mk.dim("kernel", 1, 9, sample=3)
        S, D, Pd, L = mk.dim("stride", 1, 8, sample=2), mk.dim("dilation", 1, 4, sample=2), mk.dim("padding", 0, 8, sample=1), mk.dim("seq", 1, 2 ** 16, sample=11)
        mk.assume(L + 2 * Pd - D * (k - 1) - 1 >= 0)
        if cfg["padding_mode"] in ("reflect",):
            mk.assume(Pd <= L - 1)
        if cfg["padding_mode"] in ("circular",):
            mk.assume(Pd <= L)
        x = mk.tensor("x", fo._lead(mk, cfg["rank"]) + (fi * G, L), torch.float32)
        over = {"weight": _mkparam(mk, "w", (og * G, fi, k), mod.weight), "bias": _mkparam(mk, "b", (og * G,), mod.bias) if mod.bias is not None else None,
                "stride": S, "padding": Pd, "dilation": D, "groups": G, "_reversed_padding_repeated_twice": (Pd, Pd)}
        return Proxy(mod, over), {"x": x}

    def oracle(self, P: Any, inp: Dict[str, Any], cfg: Dict[str, Any]) -> Any:
        import unit_scaling.functional as U
        x = inp["x"]
        pad = P.padding
        if P.padding_mode != "zeros":  # as torch.nn.Conv1d: explicit padding in the requested mode, then an unpadded convolution
            x = F.pad(x, (pad, pad), mode=P.padding_mode)
            pad = 0
        return U.conv1d(x, P.weight, P.bias, P.stride, pad, P.dilation, P.groups, constraint=P.constraint)

    def params(self, P: Any) -> Dict[str, Any]:
        return {"weight": P.weight, "bias": P.bias}

    def twin(self, mod: nn.Module) -> Optional[nn.Module]:
        t = nn.Conv1d(mod.in_channels, mod.out_channels, mod.kernel_size, mod.stride, mod.padding, mod.dilation, mod.groups, mod.bias is not None,
                      mod.padding_mode).to(mod.weight.dtype)
        t.weight = nn.Parameter(mod.weight.detach().clone())
        if mod.bias is not None:
            t.bias = nn.Parameter(mod.bias.detach().clone())
        return t


class NormSpec(Spec):
    def __init__(self, rms: bool):
        self.rms = rms
        self.name = self.cls_name = "RMSNorm" if rms else "LayerNorm"

    def configs(self, tier: str) -> List[Dict[str, Any]]:
        out = []
        for aff in (True, False):
            for b in ((True, False) if not self.rms else (False,)):
                for nd in (1, 2):
                    out.append({"affine": aff, "bias": b, "norm_dims": nd, "rank": 2})
        return out

    def build(self, cfg: Dict[str, Any], sizes: Optional[Dict[str, int]] = None) -> nn.Module:
        import unit_scaling as uu
        ns = tuple(_sz(sizes, f"n{i}", 4 + i) for i in range(cfg["norm_dims"]))
        eps = float((sizes or {}).get("eps", 0.3))
        if self.rms:
            return uu.RMSNorm(ns if len(ns) > 1 else ns[0], eps=eps, elementwise_affine=cfg["affine"])
        return uu.LayerNorm(list(ns), eps=eps, elementwise_affine=cfg["affine"], bias=cfg["bias"])

    def attrs(self, cfg: Dict[str, Any]) -> Dict[str, Any]:
        return {"eps": 0.3}

    def sym(self, mod: nn.Module, mk: Any, cfg: Dict[str, Any]) -> Tuple[Any, Dict[str, Any]]:
        if mk.mode != "sym":
            x = mk.tensor("x", tuple(mk.dim(f"b{i}", sample=2 + i) for i in range(cfg["rank"])) + tuple(mod.normalized_shape), torch.float32)
            return mod, {"x": x}
        ns = tuple(mk.dim(f"n{i}", sample=4 + i) for i in range(cfg["norm_dims"]))
        x = mk.tensor("x", fo._lead(mk, cfg["rank"]) + ns, torch.float32)
        over: Dict[str, Any] = {"normalized_shape": ns, "eps": mk.real("eps", 0, 1, lo_strict=True),
                                "weight": _mkparam(mk, "w", ns, mod.weight) if mod.weight is not None else None}
        if not self.rms:
            over["bias"] = _mkparam(mk, "b", ns, mod.bias) if mod.bias is not None else None
        return Proxy(mod, over), {"x": x}

    def oracle(self, P: Any, inp: Dict[str, Any], cfg: Dict[str, Any]) -> Any:
        import unit_scaling.functional as U
        if self.rms:
            return U.rms_norm(inp["x"], normalized_shape=P.normalized_shape, weight=P.weight, eps=P.eps)
        return U.layer_norm(inp["x"], P.normalized_shape, P.weight, P.bias, P.eps)

    def params(self, P: Any) -> Dict[str, Any]:
        return {"weight": P.weight, "bias": getattr(P, "bias", None) if not self.rms else None}

    def twin(self, mod: nn.Module) -> Optional[nn.Module]:
        if self.rms:
            return None
        t = nn.LayerNorm(mod.normalized_shape, mod.eps, mod.weight is not None, mod.bias is not None)
        return t  # freshly initialised LayerNorm has the same unit gains / zero biases


class EmbeddingSpec(Spec):
    name = cls_name = "Embedding"

    def configs(self, tier: str) -> List[Dict[str, Any]]:
        return [{"padding_idx": p, "max_norm": m, "rank": 2} for p in (False, True) for m in (False, True)]

    def build(self, cfg: Dict[str, Any], sizes: Optional[Dict[str, int]] = None) -> nn.Module:
        import unit_scaling as uu
        return uu.Embedding(_sz(sizes, "vocab", 7), _sz(sizes, "hidden", 3), padding_idx=_sz(sizes, "padding_idx", 1) if cfg["padding_idx"] else None,
                            max_norm=float((sizes or {}).get("max_norm", 0.7)) if cfg["max_norm"] else None, norm_type=float((sizes or {}).get("norm_type", 2.5)))

    def attrs(self, cfg: Dict[str, Any]) -> Dict[str, Any]:
        a: Dict[str, Any] = {"norm_type": 2.5}
        if cfg["padding_idx"]:
            a["padding_idx"] = 1
        if cfg["max_norm"]:
            a["max_norm"] = 0.7
        return a

    def sym(self, mod: nn.Module, mk: Any, cfg: Dict[str, Any]) -> Tuple[Any, Dict[str, Any]]:
        if mk.mode != "sym":
            idx = mk.index("idx", tuple(mk.dim(f"b{i}", sample=2 + i) for i in range(cfg["rank"])), mod.num_embeddings)
            if cfg["padding_idx"]:
                idx.reshape(-1)[0] = mod.padding_idx
            return mod, {"idx": idx}
        V, H = mk.dim("vocab", 2, sample=7), mk.dim("hidden", sample=3)
        idx = mk.index("idx", fo._lead(mk, cfg["rank"]), V)
        over: Dict[str, Any] = {"weight": _mkparam(mk, "w", (V, H), mod.weight), "norm_type": mk.real("norm_type", 1, 4)}
        if cfg["padding_idx"]:
            over["padding_idx"] = mk.dim("padding_idx", 0, 2 ** 20, sample=1)
            mk.assume(over["padding_idx"] <= V - 1)
        if cfg["max_norm"]:
            over["max_norm"] = mk.real("max_norm", 0, 1e3, lo_strict=True)
        return Proxy(mod, over), {"idx": idx}

    def oracle(self, P: Any, inp: Dict[str, Any], cfg: Dict[str, Any]) -> Any:
        import unit_scaling.functional as U
        return U.embedding(inp["idx"], P.weight, P.padding_idx, P.max_norm, P.norm_type, P.scale_grad_by_freq, P.sparse)

    def params(self, P: Any) -> Dict[str, Any]:
        return {"weight": P.weight}

    def twin(self, mod: nn.Module) -> Optional[nn.Module]:
        t = nn.Embedding(mod.num_embeddings, mod.embedding_dim, mod.padding_idx, None, mod.norm_type)
        t.weight = nn.Parameter(mod.weight.detach().clone())
        return t if mod.max_norm is None else None


class CELossSpec(Spec):
    name = cls_name = "CrossEntropyLoss"

    def configs(self, tier: str) -> List[Dict[str, Any]]:
        return [{"reduction": r, "ignore": i, "rank": 2} for r in ("mean", "sum") for i in (False, True)]

    def build(self, cfg: Dict[str, Any], sizes: Optional[Dict[str, int]] = None) -> nn.Module:
        import unit_scaling as uu
        return uu.CrossEntropyLoss(mult=float((sizes or {}).get("mult", 1.75)), ignore_index=_sz(sizes, "ignore_index", 1) if cfg["ignore"] else -100,
                                   reduction=cfg["reduction"])

    def attrs(self, cfg: Dict[str, Any]) -> Dict[str, Any]:
        return {"mult": 1.75, "reduction": cfg["reduction"], "ignore_index": 1 if cfg["ignore"] else -100}

    def sym(self, mod: nn.Module, mk: Any, cfg: Dict[str, Any]) -> Tuple[Any, Dict[str, Any]]:
        V, B = mk.dim("vocab", 2, sample=5), mk.dim("batch", sample=3)
        x = mk.tensor("x", (B, V), torch.float32)
        t = mk.index("target", (B,), V)
        if mk.mode != "sym":
            return mod, {"x": x, "t": t}
        over: Dict[str, Any] = {"mult": mk.real("mult", 0, 2 ** 10, lo_strict=True)}
        if cfg["ignore"]:
            over["ignore_index"] = mk.dim("ignore_index", 0, 2 ** 20, sample=1)
        return Proxy(mod, over), {"x": x, "t": t}

    def oracle(self, P: Any, inp: Dict[str, Any], cfg: Dict[str, Any]) -> Any:
        import unit_scaling.functional as U
        return U.cross_entropy(inp["x"], inp["t"], ignore_index=P.ignore_index, reduction=P.reduction, mult=P.mult)


class MLPSpec(Spec):
    name = cls_name = "MLP"

    def configs(self, tier: str) -> List[Dict[str, Any]]:
        return [{"rank": r} for r in (1, 2)]

    def build(self, cfg: Dict[str, Any], sizes: Optional[Dict[str, int]] = None) -> nn.Module:
        import unit_scaling as uu
        return uu.MLP(_sz(sizes, "hidden", 4), _sz(sizes, "expansion", 3))

    def sym(self, mod: nn.Module, mk: Any, cfg: Dict[str, Any]) -> Tuple[Any, Dict[str, Any]]:
        if mk.mode != "sym":
            x = mk.tensor("x", tuple(mk.dim(f"b{i}", sample=2 + i) for i in range(cfg["rank"])) + (mod.linear_1.in_features,), torch.float32)
            return mod, {"x": x}
        H, E = mk.dim("hidden", sample=4), mk.dim("expansion", 1, 16, sample=3)
        x = mk.tensor("x", fo._lead(mk, cfg["rank"]) + (H,), torch.float32)
        ch = {"linear_1": Proxy(mod.linear_1, {"weight": _mkparam(mk, "w1", (H * E, H), mod.linear_1.weight), "bias": None}),
              "linear_gate": Proxy(mod.linear_gate, {"weight": _mkparam(mk, "wg", (H * E, H), mod.linear_gate.weight), "bias": None}),
              "linear_2": Proxy(mod.linear_2, {"weight": _mkparam(mk, "w2", (H, H * E), mod.linear_2.weight), "bias": None})}
        return Proxy(mod, {}, ch), {"x": x}

    def oracle(self, P: Any, inp: Dict[str, Any], cfg: Dict[str, Any]) -> Any:
        import unit_scaling.functional as U
        x = inp["x"]
        z = U.silu_glu(U.linear(x, P.linear_1.weight, None, None), U.linear(x, P.linear_gate.weight, None, None))
        return U.linear(z, P.linear_2.weight, None, None)

    def params(self, P: Any) -> Dict[str, Any]:
        return {"w1": P.linear_1.weight, "wg": P.linear_gate.weight, "w2": P.linear_2.weight}


class MHSASpec(Spec):
    name = cls_name = "MHSA"

    def configs(self, tier: str) -> List[Dict[str, Any]]:
        return [{"is_causal": c, "dropout": d, "training": t} for c in (False, True) for d in (False, True) for t in ((True, False) if d else (True,))]

    def build(self, cfg: Dict[str, Any], sizes: Optional[Dict[str, int]] = None) -> nn.Module:
        import unit_scaling as uu
        heads = 2
        m = uu.MHSA(_sz(sizes, "d_head", 3) * heads, heads, is_causal=cfg["is_causal"], dropout_p=float((sizes or {}).get("dropout_p", 0.25)) if cfg["dropout"] else 0.0,
                    mult=float((sizes or {}).get("mult", 1.75)))
        m.train(cfg["training"])
        return m

    def attrs(self, cfg: Dict[str, Any]) -> Dict[str, Any]:
        return {"mult": 1.75, "heads": 2, "is_causal": cfg["is_causal"], "dropout_p": 0.25 if cfg["dropout"] else 0.0}

    def sym(self, mod: nn.Module, mk: Any, cfg: Dict[str, Any]) -> Tuple[Any, Dict[str, Any]]:
        if mk.mode != "sym":
            x = mk.tensor("x", (mk.dim("b", sample=2), mk.dim("seq", sample=4), mod.linear_o.in_features), torch.float32)
            return mod, {"x": x}
        heads = mod.heads
        d = mk.dim("d_head", sample=3)
        Hd = d * heads
        B, S = mk.dim("b", sample=2), mk.dim("seq", 2, sample=4)
        x = mk.tensor("x", (B, S, Hd), torch.float32)
        over: Dict[str, Any] = {"mult": mk.real("mult", 0, 2 ** 10, lo_strict=True)}
        if cfg["dropout"]:
            over["dropout_p"] = mk.real("dropout_p", 0, 1, hi_strict=True)
        ch = {"linear_qkv": Proxy(mod.linear_qkv, {"weight": _mkparam(mk, "wqkv", (Hd * 3, Hd), mod.linear_qkv.weight), "bias": None}),
              "linear_o": Proxy(mod.linear_o, {"weight": _mkparam(mk, "wo", (Hd, Hd), mod.linear_o.weight), "bias": None})}
        return Proxy(mod, over, ch), {"x": x}

    def oracle(self, P: Any, inp: Dict[str, Any], cfg: Dict[str, Any]) -> Any:
        import einops
        import unit_scaling.functional as U
        E = EINOPS if isinstance(inp["x"], STensor) else einops
        qkv = U.linear(inp["x"], P.linear_qkv.weight, None, "to_output_scale")
        q, k, v = E.rearrange(qkv, "b s (z h d) -> z b h s d", h=P.heads, z=3)
        a = U.scaled_dot_product_attention(q, k, v, dropout_p=P.dropout_p, is_causal=P.is_causal, mult=P.mult)
        a = E.rearrange(a, "b h s d -> b s (h d)")
        return U.linear(a, P.linear_o.weight, None, "to_output_scale")

    def params(self, P: Any) -> Dict[str, Any]:
        return {"wqkv": P.linear_qkv.weight, "wo": P.linear_o.weight}


class TLayerSpec(Spec):
    """TransformerLayer: sub-blocks are uninterpreted maps; what is checked is the residual wiring and tau/dropout options."""
    name = cls_name = "TransformerLayer"

    def configs(self, tier: str) -> List[Dict[str, Any]]:
        return [{"training": t, "dropout": d} for t in (True, False) for d in (False, True)]

    def build(self, cfg: Dict[str, Any], sizes: Optional[Dict[str, int]] = None) -> nn.Module:
        import unit_scaling as uu
        m = uu.TransformerLayer(_sz(sizes, "hidden", 4), 2, mhsa_tau=float((sizes or {}).get("mhsa_tau", 0.37)), mlp_tau=float((sizes or {}).get("mlp_tau", 1.9)),
                                is_causal=True, dropout_p=float((sizes or {}).get("dropout_p", 0.25)) if cfg["dropout"] else 0.0)
        m.train(cfg["training"])
        return m

    def attrs(self, cfg: Dict[str, Any]) -> Dict[str, Any]:
        return {"mhsa_tau": 0.37, "mlp_tau": 1.9, "dropout_p": 0.25 if cfg["dropout"] else 0.0}

    def sym(self, mod: nn.Module, mk: Any, cfg: Dict[str, Any]) -> Tuple[Any, Dict[str, Any]]:
        if mk.mode != "sym":
            x = mk.tensor("x", (mk.dim("b", sample=2), mk.dim("seq", sample=4), mod.mlp.linear_1.in_features), torch.float32)
            return mod, {"x": x}
        from .c06 import branch
        x = mk.tensor("x", (mk.dim("b", sample=2), mk.dim("seq", sample=4), mk.dim("hidden", sample=4)), torch.float32)
        over: Dict[str, Any] = {"mhsa_tau": mk.real("mhsa_tau", 1e-3, 1e3), "mlp_tau": mk.real("mlp_tau", 1e-3, 1e3)}
        if cfg["dropout"]:
            over["dropout_p"] = mk.real("dropout_p", 0, 1, hi_strict=True)
        ch = {n: branch(n) for n in ("mhsa_norm", "mhsa", "mlp_norm", "mlp")}
        return Proxy(mod, over, ch), {"x": x}  # type: ignore[arg-type]

    def oracle(self, P: Any, inp: Dict[str, Any], cfg: Dict[str, Any]) -> Any:
        import unit_scaling.functional as U
        x = inp["x"]
        for norm, blk, tau in ((P.mhsa_norm, P.mhsa, P.mhsa_tau), (P.mlp_norm, P.mlp, P.mlp_tau)):
            r, s = U.residual_split(x, tau)
            r = U.dropout(blk(norm(r)), P.dropout_p, P.training)
            x = U.residual_add(r, s, tau)
        return x


SPECS: Dict[str, Spec] = {s.name: s for s in [ActSpec("GELU"), ActSpec("SiLU"), SoftmaxSpec("Softmax"), DropoutSpec(), LinearSpec(False), LinearSpec(True),
                                               ConvSpec(), NormSpec(False), NormSpec(True), EmbeddingSpec(), CELossSpec(), MLPSpec(), MHSASpec(), TLayerSpec()]}


def cfg_name(name: str, cfg: Dict[str, Any]) -> str:
    return name + "[" + ",".join(f"{k}={v}" for k, v in cfg.items()) + "]"


# ============================================================================================ symbolic harness
def harness(name: str, cfg: Dict[str, Any]) -> Callable[[Ctx], None]:
    spec = SPECS[name]

    def h(c: Ctx) -> None:
        info = {"module": name, "cfg": cfg}
        mod = spec.build(cfg)
        # constructor stores its options verbatim (sentinel values)
        stored = {k: (getattr(mod, k, "<missing>"), v) for k, v in spec.attrs(cfg).items()}
        bad = {k: gv for k, gv in stored.items() if gv[0] != gv[1]}
        c.oblige("constructor stores its options", z3.BoolVal(not bad), info={**info, "claim": "stored", "detail": str(bad)})
        mk = fo.SymMk(c)
        with Session():
            P, inp = spec.sym(mod, mk, cfg)
            out = P(*inp.values())
            params = {k: v for k, v in spec.params(P).items() if isinstance(v, STensor)}
            leaves = dict(params)
            leaves.update({k: v for k, v in inp.items() if isinstance(v, STensor) and v.meta.is_floating_point()})
            G = STensor.leaf("G", out.shape, out.dtype)
            for t in leaves.values():
                t.grad = None
            out.backward(G)
            g_mod = {k: t.grad for k, t in leaves.items()}
            for t in leaves.values():
                t.grad = None
            ref = spec.oracle(P, inp, cfg)
            ref.backward(G)
            g_ref = {k: t.grad for k, t in leaves.items()}
            _eq_lc(c, "forward = functional form with the configured options", out.lc, ref.lc, {**info, "claim": "fwd"})
            for k in leaves:
                if g_mod[k] is None and g_ref[k] is None:
                    continue
                if g_mod[k] is None or g_ref[k] is None:
                    c.oblige(f"grad[{k}] = functional form's gradient", z3.BoolVal(False), info={**info, "claim": "grad", "mismatch": "missing gradient"})
                else:
                    _eq_lc(c, f"grad[{k}] = functional form's gradient", g_mod[k], g_ref[k], {**info, "claim": "grad"})
            shp = len(out.shape) == len(ref.shape)
            c.oblige("same shape as the functional form", z3.And([_sreal(a).z == _sreal(b).z for a, b in zip(out.shape, ref.shape)]) if shp and len(out.shape) else z3.BoolVal(shp),
                     info={**info, "claim": "shape"})

    return h


# ============================================================================================ concrete replay
def concrete_compare(name: str, cfg: Dict[str, Any], model: Dict[str, Any]) -> List[str]:
    spec = SPECS[name]
    sizes = dict(model)
    torch.manual_seed(0)
    mod = spec.build(cfg, sizes).double() if name != "CrossEntropyLoss" else spec.build(cfg, sizes)
    mk = fo.ConMk(model, 0, dtype=torch.float64)
    P, inp = spec.sym(mod, mk, cfg)
    bad: List[str] = []
    torch.manual_seed(1)
    out = mod(*inp.values())
    torch.manual_seed(1)
    ref = spec.oracle(mod, inp, cfg)
    if tuple(out.shape) != tuple(ref.shape):
        return [f"output shape {tuple(out.shape)} vs functional form {tuple(ref.shape)}"]
    if not torch.allclose(out, ref, rtol=1e-9, atol=1e-12):
        bad.append(f"forward differs from the functional form with the configured options (max abs err {(out - ref).abs().max().item():.3g})")
    leaves = [p for p in mod.parameters() if p.requires_grad] + [v for v in inp.values() if isinstance(v, torch.Tensor) and v.is_floating_point() and v.requires_grad]
    if leaves:
        g = torch.randn(out.shape, dtype=out.dtype, generator=torch.Generator().manual_seed(5))
        torch.manual_seed(1)
        out2 = mod(*inp.values())
        ga = torch.autograd.grad(out2, leaves, g, allow_unused=True)
        torch.manual_seed(1)
        gb = torch.autograd.grad(spec.oracle(mod, inp, cfg), leaves, g, allow_unused=True)
        for i, (a, b) in enumerate(zip(ga, gb)):
            if (a is None) != (b is None) or (a is not None and not torch.allclose(a, b, rtol=1e-9, atol=1e-12)):
                bad.append(f"gradient #{i} (shape {tuple(leaves[i].shape)}) differs from the functional form's")
    tw = spec.twin(mod)
    if tw is not None:
        tw = tw.double()
        tw.train(mod.training)
        torch.manual_seed(1)
        try:
            tout = tw(*inp.values())
            if tuple(tout.shape) != tuple(out.shape):
                bad.append(f"output shape {tuple(out.shape)} vs torch.nn.{type(tw).__name__} {tuple(tout.shape)}")
            else:
                r, dev = fo._ratio_c(out, tout)
                if not (dev < 1e-7 and r > 0):
                    bad.append(f"output is not a positive scalar multiple of torch.nn.{type(tw).__name__} (ratio {r!r}, spread {dev:.3g})")
        except Exception as e:
            bad.append(f"torch.nn twin raised {type(e).__name__}: {e}")
    return bad


def replay_mod(obname: str, model: Dict[str, Any], info: Any) -> Tuple[bool, str]:
    name, cfg = info["module"], info["cfg"]
    if info.get("claim") == "stored":
        spec = SPECS[name]
        mod = spec.build(cfg)
        bad = {k: (getattr(mod, k, "<missing>"), v) for k, v in spec.attrs(cfg).items() if getattr(mod, k, "<missing>") != v}
        return bool(bad), f"{cfg_name(name, cfg)}: constructor arguments not stored: {bad}"
    if info.get("mismatch"):
        model = {k: v for k, v in model.items() if not isinstance(v, int) or isinstance(v, bool)}
    try:
        bad2 = concrete_compare(name, cfg, model)
    except Exception as e:
        return True, f"{cfg_name(name, cfg)} at {model}: raises {type(e).__name__}: {e}"
    return bool(bad2), f"{cfg_name(name, cfg)} at {model}: " + "; ".join(bad2 or ["module = functional form = scalar x torch.nn twin"])


def task_module(name: str, cfg: Dict[str, Any], timeout: float) -> List[Dict[str, Any]]:
    torch.set_num_threads(1)
    return discharge("C08", cfg_name(name, cfg), harness(name, cfg), replay_mod, timeout, base_info={"module": name, "cfg": cfg}, skip_definedness=True)


# ============================================================================================ initial state, tags, depth containers
def task_initial_state() -> List[Dict[str, Any]]:
    """Constructors executed under a TorchFunctionMode that records every sampler / in-place write: the weight's last writer must be
    normal_(0, 1); any other spelling of the initialiser is decided by a fixed-seed moment test on a 2^18-element weight.  Tags are
    read off concretely constructed modules."""
    import unit_scaling as uu
    from torch.overrides import TorchFunctionMode
    torch.set_num_threads(1)
    recs: List[Dict[str, Any]] = []
    events: List[Tuple[str, int, Any]] = []  # (function name, data_ptr written, (mean, std) for normal_)

    class Spy(TorchFunctionMode):
        def __torch_function__(self, func: Any, types: Any, args: Any = (), kwargs: Any = None) -> Any:
            kwargs = kwargs or {}
            out = func(*args, **kwargs)
            name = getattr(func, "__name__", "")
            tgt = args[0] if args else kwargs.get("tensor", kwargs.get("input"))  # nn.init.* arrive with keyword arguments
            if name.endswith("_") and not name.startswith("__") and name not in ("requires_grad_", "retain_grad_") and isinstance(tgt, torch.Tensor):
                par = None
                if name == "normal_":
                    par = (float(args[1]) if len(args) > 1 else float(kwargs.get("mean", 0.0)), float(args[2]) if len(args) > 2 else float(kwargs.get("std", 1.0)))
                events.append((name, tgt.data_ptr(), par))
            return out

    bad: List[str] = []
    mods: Dict[str, nn.Module] = {}
    with Spy():
        mods = {
            "Linear(bias)": uu.Linear(16, 8, bias=True), "Linear": uu.Linear(16, 8), "LinearReadout(bias)": uu.LinearReadout(16, 8, bias=True),
            "Conv1d(bias)": uu.Conv1d(4, 6, 3, bias=True), "Conv1d": uu.Conv1d(4, 6, 3),
        }
    big = {"Linear(bias)": lambda: uu.Linear(512, 512, bias=True), "Linear": lambda: uu.Linear(512, 512),
           "LinearReadout(bias)": lambda: uu.LinearReadout(512, 512, bias=True), "Conv1d(bias)": lambda: uu.Conv1d(64, 64, 64, bias=True),
           "Conv1d": lambda: uu.Conv1d(64, 64, 64)}
    how: Dict[str, str] = {}
    for n, m in mods.items():
        writers = [e for e in events if e[1] == m.weight.data_ptr()]
        if writers and writers[-1][0] == "normal_" and writers[-1][2] == (0.0, 1.0):
            how[n] = "last writer normal_(0, 1)"
        else:
            # another spelling (or another distribution): decided on the real constructor by the first four moments, fixed seed
            st = torch.random.get_rng_state()
            torch.manual_seed(20240229)
            w = big[n]().weight.detach().double().flatten()
            torch.random.set_rng_state(st)
            mu, sd = w.mean().item(), w.std().item()
            z = (w - mu) / sd
            sk, ku = (z ** 3).mean().item(), (z ** 4).mean().item()
            ok = abs(mu) < 0.01 and abs(sd - 1) < 0.008 and abs(sk) < 0.025 and abs(ku - 3) < 0.05
            how[n] = f"moment test on {w.numel()} elements: mean {mu:.4f} std {sd:.4f} skew {sk:.4f} kurtosis {ku:.4f}"
            if not ok:
                bad.append(f"{n}: weight initialiser is not N(0,1) (writers {[(e[0], e[2]) for e in writers]}; {how[n]})")
        if m.bias is not None and not torch.equal(m.bias.detach(), torch.zeros_like(m.bias)):
            bad.append(f"{n}: bias not zero")
    more = {"LayerNorm": uu.LayerNorm(8, elementwise_affine=True), "RMSNorm": uu.RMSNorm(8, elementwise_affine=True), "Embedding": uu.Embedding(11, 8),
            "MLP": uu.MLP(8), "MHSA": uu.MHSA(8, 2, is_causal=True), "TransformerLayer": uu.TransformerLayer(8, 2, 0.3, 0.4, True),
            "TransformerDecoder": uu.TransformerDecoder(8, 11, 2, 2)}
    for n in ("LayerNorm", "RMSNorm"):
        m = more[n]
        if not torch.equal(m.weight.detach(), torch.ones_like(m.weight)):
            bad.append(f"{n}: gain not one")
        if getattr(m, "bias", None) is not None and not torch.equal(m.bias.detach(), torch.zeros_like(m.bias)):
            bad.append(f"{n}: bias not zero")
    # tags
    expect = {"Linear(bias)": {"weight": "weight", "bias": "bias"}, "LinearReadout(bias)": {"weight": "output", "bias": "bias"},
              "Conv1d(bias)": {"weight": "weight", "bias": "bias"}, "LayerNorm": {"weight": "norm", "bias": "bias"}, "RMSNorm": {"weight": "norm"},
              "Embedding": {"weight": "weight"}}
    allm = {**mods, **more}
    for n, tags in expect.items():
        for pn, tag in tags.items():
            p = getattr(allm[n], pn)
            if getattr(p, "mup_type", None) != tag or getattr(p, "mup_scaling_depth", "x") is not None:
                bad.append(f"{n}.{pn}: tag {getattr(p, 'mup_type', None)}/{getattr(p, 'mup_scaling_depth', 'x')} instead of {tag}/None")
    from unit_scaling.parameter import has_parameter_data
    for n in ("MLP", "MHSA", "TransformerLayer", "TransformerDecoder"):
        for pn, p in allm[n].named_parameters():
            if not has_parameter_data(p):
                bad.append(f"{n}.{pn}: untagged parameter")
            elif n != "TransformerDecoder" and (p.mup_type != "weight" or p.mup_scaling_depth is not None):
                bad.append(f"{n}.{pn}: tag {p.mup_type}/{p.mup_scaling_depth}")
    dec = allm["TransformerDecoder"]
    for pn, p in dec.named_parameters():
        want_depth = 2 if pn.startswith("layers.") else None
        want_tag = "output" if pn.startswith("projection") else "weight"
        if has_parameter_data(p) and (p.mup_scaling_depth != want_depth or p.mup_type != want_tag):
            bad.append(f"TransformerDecoder.{pn}: {p.mup_type}/{p.mup_scaling_depth} instead of {want_tag}/{want_depth}")
    # weight_mup_type option honoured
    if uu.Linear(3, 4, weight_mup_type="output").weight.mup_type != "output" or uu.Conv1d(2, 2, 1, weight_mup_type="output").weight.mup_type != "output":
        bad.append("weight_mup_type option ignored")
    # frozen embedding
    if uu.Embedding(5, 3, _freeze=True).weight.requires_grad:
        recs.append({"type": "violation", "key": "C08/initial-state/Embedding(_freeze=True) trainable",
                     "what": "uu.Embedding(..., _freeze=True) is accepted at construction but its weight is trainable (requires_grad=True): option neither honoured nor rejected",
                     "replay": {"kind": "initial"}})
    if bad:
        recs.append({"type": "violation", "key": "C08/initial-state", "what": "; ".join(bad[:6]), "replay": {"kind": "initial"}})
    else:
        recs.append({"type": "obligation", "name": "initial-state: N(0,1) initialiser, zero biases, unit gains, expected tags on every parameter", "status": CONCRETE,
                     "queries": 0, "kind": "concrete", "detail": f"{len(allm)} module instances; weight initialisers: {how}"})
    recs.append({"type": "function", "functions": [describe_function(lazy(lambda: uu.Linear.reset_parameters)), describe_function(lazy(lambda: uu.Conv1d.reset_parameters))]})
    return recs


class _One(nn.Module):
    def __init__(self, p: Optional[nn.Parameter]):
        super().__init__()
        self.lin = nn.Linear(2, 2, bias=False)
        if p is not None:
            self.lin.weight = p


CONTAINER_FORMS = ["DepthSequential", "DepthSequential(OrderedDict)", "DepthModuleList", "DepthModuleList(generator)"]


def _make_container(form: str, mods: List[nn.Module]) -> nn.Module:
    """every constructor form the torch base classes accept"""
    import unit_scaling as uu
    from collections import OrderedDict
    if form == "DepthSequential":
        return uu.DepthSequential(*mods)
    if form == "DepthSequential(OrderedDict)":
        return uu.DepthSequential(OrderedDict((f"layer{i}", m) for i, m in enumerate(mods)))
    if form == "DepthModuleList":
        return uu.DepthModuleList(mods)
    return uu.DepthModuleList(m for m in mods)


def h_depth(container: str, n: int, tagged_kind: str):
    """DepthModuleList/DepthSequential on modules whose parameters carry a symbolic tag (any of the four / missing)."""

    def h(c: Ctx) -> None:
        import unit_scaling as uu
        from unit_scaling.parameter import has_parameter_data
        sel = z3.Int("tag_sel")
        c.assumes += [sel >= 0, sel <= 3]
        c.extra_vars["tag_sel"] = sel
        _REG["tag"] = sel
        info = {"container": container, "n": n, "tagged": tagged_kind}
        mods = []
        for i in range(n):
            if tagged_kind == "untagged" and i == n - 1:
                mods.append(_One(None))
            else:
                p = uu.Parameter(torch.zeros(2, 2), SymTag("tag"))  # type: ignore[arg-type]
                mods.append(_One(p))
        raised = False
        cont = None
        try:
            cont = _make_container(container, mods)
        except ValueError:
            raised = True
        if tagged_kind == "untagged":
            c.oblige("untagged parameter refused (ValueError)", z3.BoolVal(raised), info={**info, "claim": "refuse"})
        else:
            c.oblige("tagged parameters accepted", z3.BoolVal(not raised), info={**info, "claim": "accept"})
            if cont is not None:
                ok = all(p.mup_scaling_depth == n for p in cont.parameters())
                c.oblige("depth = len(container) on every parameter", z3.BoolVal(ok), info={**info, "claim": "depth"})

    return h


def replay_depth(obname: str, model: Dict[str, Any], info: Any) -> Tuple[bool, str]:
    import unit_scaling as uu
    tag = ["weight", "bias", "norm", "output"][int(model.get("tag_sel", 0)) % 4]
    n = info["n"]
    mods = [_One(None) if (info["tagged"] == "untagged" and i == n - 1) else _One(uu.Parameter(torch.zeros(2, 2), tag)) for i in range(n)]  # type: ignore[arg-type]
    try:
        cont = _make_container(info["container"], mods)
    except ValueError:
        return info["tagged"] != "untagged", f"{info}: raised ValueError"
    if info["tagged"] == "untagged":
        return True, f"{info}: untagged parameter accepted"
    bad = [p.mup_scaling_depth for p in cont.parameters() if p.mup_scaling_depth != n]
    return bool(bad), f"{info}: depths {bad} instead of {n}"


def task_depth(container: str, n: int, tagged_kind: str) -> List[Dict[str, Any]]:
    torch.set_num_threads(1)
    return discharge("C08", f"{container}[n={n},{tagged_kind}]", h_depth(container, n, tagged_kind), replay_depth, 20,
                     base_info={"container": container, "n": n, "tagged": tagged_kind})


def task_rejected_options() -> List[Dict[str, Any]]:
    """options a module does not implement must be rejected at construction"""
    import unit_scaling as uu
    torch.set_num_threads(1)
    cases = {"SiLU(inplace=True)": lambda: uu.SiLU(inplace=True), "Dropout(inplace=True)": lambda: uu.Dropout(0.1, inplace=True),
             "Embedding(sparse=True)": lambda: uu.Embedding(5, 3, sparse=True), "Embedding(scale_grad_by_freq=True)": lambda: uu.Embedding(5, 3, scale_grad_by_freq=True),
             "CrossEntropyLoss(label_smoothing=0.1)": lambda: uu.CrossEntropyLoss(label_smoothing=0.1),
             "CrossEntropyLoss(weight=...)": lambda: uu.CrossEntropyLoss(weight=torch.ones(3)),
             "CrossEntropyLoss(reduce=False)": lambda: uu.CrossEntropyLoss(reduce=False),
             "CrossEntropyLoss(size_average=False)": lambda: uu.CrossEntropyLoss(size_average=False)}
    recs: List[Dict[str, Any]] = []
    bad = []
    for n, f in cases.items():
        try:
            f()
            bad.append(n)
        except ValueError:
            pass
        except Exception as e:
            bad.append(f"{n} -> {type(e).__name__}")
    if bad:
        recs.append({"type": "violation", "key": "C08/rejected-options/" + bad[0], "what": f"unsupported constructor options accepted: {bad}", "replay": {"kind": "rejected"}})
    else:
        recs.append({"type": "obligation", "name": "unsupported constructor options raise ValueError", "status": CONCRETE, "queries": 0, "kind": "enumeration",
                     "detail": sorted(cases)})
    return recs


def run(rep: Report, only: str = "") -> None:
    import unit_scaling._modules as um
    thorough = rep.tier == "thorough"
    timeout = 120 if thorough else 40
    tasks: List[Any] = []
    for name, spec in SPECS.items():
        for cfg in spec.configs(rep.tier):
            tasks.append((task_module, (name, cfg, timeout)))
    tasks += [(task_initial_state, ()), (task_rejected_options, ())]
    for cont in CONTAINER_FORMS:
        for n in ((1, 2, 3, 5) if thorough else (1, 3)):
            for tk in ("tagged", "untagged"):
                tasks.append((task_depth, (cont, n, tk)))
    if only:
        tasks = [t for t in tasks if only in repr(t[1])]
    rep.extend(run_tasks(tasks))
    rep.functions = [describe_function(getattr(getattr(um, n, None), "forward", None)) for n in SPECS] + [describe_function(lazy(lambda: um.DepthSequential.__init__)), describe_function(lazy(lambda: um.DepthModuleList.__init__))]
    rep.bounds = {"forward": "real forward() of 14 module classes on a proxy self: parameters of symbolic shape (dims <= 2^20), numeric options symbolic (mult, p, eps, stride 1-8, "
                             "padding 0-8, dilation 1-4, groups 1-4, kernel 1-9, padding_idx, max_norm, norm_type, ignore_index, taus), data universally quantified",
                  "constructor": "run concretely once per discrete option combination (constraint names incl. None/default, approximate, bias, affine, padding_mode, is_causal, reduction, "
                                 "train/eval) with sentinel option values that must be stored verbatim",
                  "composites": "MLP and MHSA unfolded through their real forwards (einops.rearrange an opaque reshaping stub with a pattern-derived shape rule); TransformerLayer with "
                                "uninterpreted sub-blocks (residual wiring, taus, dropout); TransformerDecoder/TransformerStack: tags, depth, initial state and tau wiring (C07) only",
                  "outside": "statistics of the random initialiser (reduced to: the initialiser called is N(0,1)); floats as reals; Dynamo"}
    rep.assumptions = ["functional-form oracle per module written independently from the module's forward, using the configured options read from the module",
                       "C01/C02 relate the functional form to the torch.nn twin; the replay additionally compares with the twin directly"]
    rep.trusted = ["z3 NRA", "vf/sym/tensor.py", "torch meta tensors (shape rule validation)"]
    rep.sample({"harness": "Conv1d[padding_mode=reflect,bias=True,constraint=gmean,rank=1]", "obligation": "forward = functional form with the configured options"})


def replay(data: Dict[str, Any]) -> Tuple[bool, str]:
    k = data.get("kind")
    if k == "initial":
        r = task_initial_state()
        v = [x for x in r if x.get("type") == "violation"]
        return bool(v), str([x["what"] for x in v] or "ok")
    if k == "rejected":
        r = task_rejected_options()
        v = [x for x in r if x.get("type") == "violation"]
        return bool(v), str([x["what"] for x in v] or "ok")
    info = data.get("info") or {}
    if "container" in info:
        return replay_depth(data["obligation"], data["model"], info)
    return replay_mod(data["obligation"], data["model"], info)
