"""Shared harnesses for C01/C02/C03/C05: every public function of unit_scaling.functional executed on
symbolic tensors (engine S) next to its PyTorch reference, + the concrete replayer used to confirm
counterexamples on the real code."""
from __future__ import annotations

import math
from fractions import Fraction
from typing import Any, Callable, Dict, List, Optional, Sequence, Tuple

import torch
import torch.nn.functional as F
import z3

from ..report import describe_function
from ..sym.runner import discharge
from ..sym.scalar import Ctx, SBool, SInt, SReal, _sreal, approx
from ..sym.tensor import LC, TF, HarnessError, Session, STensor, SSize, Term, lc_leaf, unify

DT = {"float64": torch.float64, "float32": torch.float32, "bfloat16": torch.bfloat16, "float16": torch.float16}
BINARY = ["gmean", "hmean", "amean", "to_output_scale", "to_grad_input_scale"]
TERNARY = ["gmean", "hmean", "amean", "to_output_scale", "to_left_grad_scale", "to_right_grad_scale"]
DEFAULT = "<default>"


# =============================================================================== value factories
class SymMk:
    mode = "sym"

    def __init__(self, c: Ctx):
        self.c = c

    def dim(self, name: str, lo: int = 1, hi: int = 2 ** 20, sample: int = 3) -> Any:
        return self.c.dim(name, lo, hi, sample)

    def real(self, name: str, lo: Any, hi: Any, lo_strict: bool = False, hi_strict: bool = False, default: Any = None) -> Any:
        return self.c.real(name, lo, hi, lo_strict, hi_strict)

    def tensor(self, name: str, shape: Sequence[Any], dtype: torch.dtype, grad: bool = True) -> Any:
        return STensor.leaf(name, shape, dtype, requires_grad=grad)

    def index(self, name: str, shape: Sequence[Any], high: Any) -> Any:
        return STensor.leaf(name, shape, torch.int64)

    def assume(self, cond: Any) -> None:
        self.c.assume(cond)


class ConMk:
    mode = "con"

    def __init__(self, model: Dict[str, Any], seed: int = 0, dtype: Optional[torch.dtype] = torch.float64, fill: Optional[float] = None):
        self.model = model
        self.seed = seed
        self.gen = torch.Generator().manual_seed(seed)
        self.dtype = dtype
        self.fill = fill
        self.tensors: Dict[str, torch.Tensor] = {}

    def dim(self, name: str, lo: int = 1, hi: int = 2 ** 20, sample: int = 3) -> int:
        return int(self.model.get(name, sample))

    def real(self, name: str, lo: Any, hi: Any, lo_strict: bool = False, hi_strict: bool = False, default: Any = None) -> float:
        if name in self.model:
            return float(self.model[name])
        return float(default) if default is not None else float(math.sqrt(max(float(lo), 1e-3) * float(hi))) if float(lo) >= 0 else 0.5

    def tensor(self, name: str, shape: Sequence[Any], dtype: torch.dtype, grad: bool = True) -> torch.Tensor:
        dt = self.dtype or dtype
        if self.fill is not None:
            t = torch.full(tuple(int(s) for s in shape), self.fill, dtype=dt)
        else:
            t = torch.randn(tuple(int(s) for s in shape), generator=self.gen, dtype=torch.float64).to(dt)
        t.requires_grad_(grad)
        self.tensors[name] = t
        return t

    def index(self, name: str, shape: Sequence[Any], high: Any) -> torch.Tensor:
        # two kinds of draws, by seed parity: (even) every index value occurs when the tensor is large enough (cyclic, shuffled), so a special
        # index (padding_idx, ignore_index) is certainly present next to ordinary ones; (odd) independent uniform draws, so the NUMBER of
        # occurrences of any value differs between the two data draws of a replay (a factor that counts them is data dependent)
        sh = tuple(int(s) for s in shape)
        n = 1
        for v in sh:
            n *= v
        if self.seed % 2 == 0:
            t = (torch.arange(n) % max(int(high), 1))
            if n > 1:
                t = t[torch.randperm(n, generator=self.gen)]
            t = t.reshape(sh)
        else:
            t = torch.randint(0, int(high), sh, generator=self.gen)
        self.tensors[name] = t
        return t

    def assume(self, cond: Any) -> None:
        pass


class Call:
    def __init__(self, lib: Callable[[Any], Any], ref: Callable[[], Any], diff: Dict[str, Any],
                 inputs: Dict[str, Any], constrained: Sequence[str] = (), terms: Optional[Dict[str, Any]] = None,
                 unit: bool = False, grad_ref: Optional[Callable[[], Any]] = None, known: Optional[Dict[str, Any]] = None,
                 seeded_rng: bool = False):
        self.lib = lib  # lib(constraint) ; constraint may be DEFAULT
        self.ref = ref
        self.grad_ref = grad_ref or ref  # reference whose gradients are compared (sum-reduced loss for mean losses)
        self.diff = diff  # name -> differentiable input
        self.inputs = inputs  # every tensor input (for the "not modified" clause)
        self.constrained = list(constrained)  # which gradient factors the constraint ties to the output factor
        self.terms = terms or {}
        self.unit = unit
        self.known = known or {}
        self.seeded_rng = seeded_rng


# =============================================================================== op specs
def _lead(mk: Any, rank: int, stem: str = "b") -> Tuple[Any, ...]:
    return tuple(mk.dim(f"{stem}{i}", sample=2 + i) for i in range(rank))


def _ckw(constraint: Any) -> Dict[str, Any]:
    return {} if constraint == DEFAULT else {"constraint": constraint}


def spec_gelu(mk: Any, cfg: Dict[str, Any]) -> Call:
    import unit_scaling.functional as U
    sh = _lead(mk, cfg["rank"])
    x = mk.tensor("x", sh, DT[cfg["dtype"]])
    m = mk.real("mult", 0, 2 ** 10, lo_strict=True, default=1.7) if cfg.get("mult", True) else 1.0
    ap = cfg.get("approximate", "none")
    return Call(lambda k: U.gelu(x, mult=m, approximate=ap, **_ckw(k)),
                lambda: F.gelu(x * m, approximate=ap) / m, {"x": x}, {"x": x}, constrained=["x"])


def spec_silu(mk: Any, cfg: Dict[str, Any]) -> Call:
    import unit_scaling.functional as U
    sh = _lead(mk, cfg["rank"])
    x = mk.tensor("x", sh, DT[cfg["dtype"]])
    m = mk.real("mult", 0, 2 ** 10, lo_strict=True, default=1.7) if cfg.get("mult", True) else 1.0
    return Call(lambda k: U.silu(x, mult=m, **_ckw(k)), lambda: F.silu(x * m) / m, {"x": x}, {"x": x}, constrained=["x"])


def spec_silu_glu(mk: Any, cfg: Dict[str, Any]) -> Call:
    import unit_scaling.functional as U
    sh = _lead(mk, cfg["rank"])
    x = mk.tensor("x", sh, DT[cfg["dtype"]])
    g = mk.tensor("gate", sh, DT[cfg["dtype"]])
    m = mk.real("mult", 0, 2 ** 10, lo_strict=True, default=1.7) if cfg.get("mult", True) else 1.0
    return Call(lambda k: U.silu_glu(x, g, mult=m), lambda: x * (F.silu(g * m) / m), {"x": x, "gate": g}, {"x": x, "gate": g},
                constrained=["x", "gate"])


def spec_softmax(mk: Any, cfg: Dict[str, Any]) -> Call:
    import unit_scaling.functional as U
    sh = _lead(mk, cfg["rank"])
    x = mk.tensor("x", sh, DT[cfg["dtype"]])
    m = mk.real("mult", 0, 2 ** 10, lo_strict=True, default=1.7) if cfg.get("mult", True) else 1.0
    dim = cfg["dim"]
    dt = cfg.get("sm_dtype")
    return Call(lambda k: U.softmax(x, dim, dtype=dt, mult=m, **_ckw(k)), lambda: F.softmax(x * m, dim=dim, dtype=dt),
                {"x": x}, {"x": x}, constrained=["x"])


def spec_dropout(mk: Any, cfg: Dict[str, Any]) -> Call:
    import unit_scaling.functional as U
    sh = _lead(mk, cfg["rank"])
    x = mk.tensor("x", sh, DT[cfg["dtype"]])
    p = mk.real("p", 0, 1, hi_strict=True, default=0.3)
    tr = cfg.get("training", True)
    one_minus_p = 1 - p
    return Call(lambda k: U.dropout(x, p, tr), lambda: F.dropout(x, p, tr), {"x": x}, {"x": x},
                terms={"out": 1 / one_minus_p, "x": 1 / one_minus_p} if tr else {}, seeded_rng=True)


def spec_matmul(mk: Any, cfg: Dict[str, Any]) -> Call:
    import unit_scaling.functional as U
    n, k, m = mk.dim("n", sample=2), mk.dim("k", sample=5), mk.dim("m", sample=3)
    lb = _lead(mk, cfg["lbatch"], "lb")
    if cfg.get("rbatch", "same") == "same":
        rb = lb
    else:
        rb = ()
    a = mk.tensor("left", lb + (n, k), DT[cfg["dtype"]])
    b = mk.tensor("right", rb + (k, m), DT[cfg["dtype"]])
    terms = {"out": k, "left": m, "right": n} if rb == lb else {"out": k, "left": m}
    return Call(lambda c: U.matmul(a, b, **_ckw(c)), lambda: torch.matmul(a, b), {"left": a, "right": b},
                {"left": a, "right": b}, constrained=["left", "right"], terms=terms)


def _spec_linear(readout: bool) -> Callable[[Any, Dict[str, Any]], Call]:
    def spec(mk: Any, cfg: Dict[str, Any]) -> Call:
        import unit_scaling.functional as U
        fi, fo = mk.dim("fan_in", sample=5), mk.dim("fan_out", sample=3)
        lead = _lead(mk, cfg["rank"])
        x = mk.tensor("x", lead + (fi,), DT[cfg["dtype"]])
        w = mk.tensor("w", (fo, fi), DT[cfg["dtype"]])
        b = mk.tensor("b", (fo,), DT[cfg["dtype"]]) if cfg.get("bias", True) else None
        fn = U.linear_readout if readout else U.linear
        batch = SSize(lead).numel() if lead else 1
        diff = {"x": x, "w": w}
        if b is not None:
            diff["b"] = b
        terms = {"out": (fi * fi) if readout else fi, "x": fo, "w": batch}
        if b is not None:
            terms["b"] = batch
        return Call(lambda c: fn(x, w, b, **_ckw(c)), lambda: F.linear(x, w, b), diff, dict(diff), constrained=["x"], terms=terms)

    return spec


def spec_conv1d(mk: Any, cfg: Dict[str, Any]) -> Call:
    import unit_scaling.functional as U
    G = mk.dim("groups", 1, 4, sample=2) if cfg.get("groups", True) else 1
    fi = mk.dim("fan_in", sample=3)  # in-channels per group
    og = mk.dim("out_per_group", sample=2)
    k = mk.dim("kernel", 1, 9, sample=3)
    S = mk.dim("stride", 1, 8, sample=2) if cfg.get("stride", True) else 1
    D = mk.dim("dilation", 1, 4, sample=2) if cfg.get("dilation", True) else 1
    P = mk.dim("padding", 0, 8, sample=1) if cfg.get("padding", True) else 0
    L = mk.dim("seq", 1, 2 ** 16, sample=11)
    span = L + 2 * P - D * (k - 1) - 1
    mk.assume(span >= 0)
    lead = _lead(mk, cfg["rank"])
    x = mk.tensor("x", lead + (fi * G, L), DT[cfg["dtype"]])
    w = mk.tensor("w", (og * G, fi, k), DT[cfg["dtype"]])
    b = mk.tensor("b", (og * G,), DT[cfg["dtype"]]) if cfg.get("bias", True) else None
    diff = {"x": x, "w": w}
    if b is not None:
        diff["b"] = b
    lout = span // S + 1
    batch = (SSize(lead).numel() if lead else 1) * lout
    terms: Dict[str, Any] = {}
    if not cfg.get("padding", True):  # the exact clause for output / weight / bias gradients is stated without padding
        terms.update({"out": fi * k, "w": batch})
        if b is not None:
            terms["b"] = batch
    terms["x"] = _sreal(og * k) / S  # average over one stride period of interior positions
    if cfg.get("tuples"):  # F.conv1d's documented one-element tuple form (what torch.nn.Conv1d passes)
        return Call(lambda c: U.conv1d(x, w, b, (S,), (P,), (D,), G, **_ckw(c)), lambda: TF.conv1d(x, w, b, (S,), (P,), (D,), G), diff, dict(diff),
                    constrained=["x"], terms=terms)
    return Call(lambda c: U.conv1d(x, w, b, S, P, D, G, **_ckw(c)), lambda: TF.conv1d(x, w, b, S, P, D, G), diff, dict(diff),
                constrained=["x"], terms=terms)


def spec_layer_norm(mk: Any, cfg: Dict[str, Any]) -> Call:
    import unit_scaling.functional as U
    lead = _lead(mk, cfg["rank"])
    ns = tuple(mk.dim(f"n{i}", sample=4 + i) for i in range(cfg.get("norm_dims", 1)))
    x = mk.tensor("x", lead + ns, DT[cfg["dtype"]])
    w = mk.tensor("w", ns, DT[cfg["dtype"]]) if cfg.get("weight", True) else None
    b = mk.tensor("b", ns, DT[cfg["dtype"]]) if cfg.get("bias", True) else None
    eps = mk.real("eps", 0, 1, lo_strict=True, default=1e-3)
    diff = {"x": x}
    rows = SSize(lead).numel() if lead else 1
    terms = {}
    if w is not None:
        diff["w"] = w
        terms["w"] = rows
    if b is not None:
        diff["b"] = b
        terms["b"] = rows
    return Call(lambda c: U.layer_norm(x, ns, w, b, eps), lambda: F.layer_norm(x, ns, w, b, eps), diff, dict(diff), unit=True, terms=terms)


def _ref_rms_norm(x: Any, ns: Tuple[Any, ...], w: Any, eps: Any) -> Any:
    """Independent spelling of RMS normalisation (torch.nn.functional.rms_norm's definition)."""
    dims = tuple(range(-1, -1 - len(ns), -1))
    ms = x.float().pow(2).mean(dims, keepdim=True)
    if not isinstance(eps, (int, float)) or eps:
        ms = ms + eps
    y = x / ms.sqrt().to(x.dtype)
    return y * w if w is not None else y


def spec_rms_norm(mk: Any, cfg: Dict[str, Any]) -> Call:
    import unit_scaling.functional as U
    lead = _lead(mk, cfg["rank"])
    ns = tuple(mk.dim(f"n{i}", sample=4 + i) for i in range(cfg.get("norm_dims", 1)))
    x = mk.tensor("x", lead + ns, DT[cfg["dtype"]])
    w = mk.tensor("w", ns, DT[cfg["dtype"]]) if cfg.get("weight", True) else None
    eps = mk.real("eps", 0, 1, lo_strict=True, default=1e-3)
    diff = {"x": x}
    terms = {}
    if w is not None:
        diff["w"] = w
        terms["w"] = SSize(lead).numel() if lead else 1
    return Call(lambda c: U.rms_norm(x, ns, w, eps), lambda: _ref_rms_norm(x, ns, w, eps), diff, dict(diff), unit=True, terms=terms)


def spec_add(mk: Any, cfg: Dict[str, Any]) -> Call:
    import unit_scaling.functional as U
    pat = cfg["pattern"]  # per dim (from the left): 'e' equal, 'a' size 1 in a, 'b' size 1 in b, 'A' missing in a, 'B' missing in b
    sa: List[Any] = []
    sb: List[Any] = []
    for i, ch in enumerate(pat):
        d = mk.dim(f"d{i}", 2 if cfg.get("no_single", True) else 1, sample=2 + i)
        if ch == "e":
            sa.append(d); sb.append(d)
        elif ch == "a":
            sa.append(1); sb.append(d)
        elif ch == "b":
            sa.append(d); sb.append(1)
        elif ch == "A":
            sb.append(d)
        elif ch == "B":
            sa.append(d)
    a = mk.tensor("a", tuple(sa), DT[cfg["dtype"]])
    b = mk.tensor("b", tuple(sb), DT[cfg["dtype"]])
    full: Any = 1
    for i, ch in enumerate(pat):
        full = full * (sa[len(sa) - len(pat) + i] if ch in "ebB" else sb[len(sb) - len(pat) + i]) if False else full
    na, nb = SSize(sa).numel(), SSize(sb).numel()
    tot: Any = 1
    ia = ib = 0
    for ch in pat:
        if ch in "eab":
            da, db = sa[ia], sb[ib]
            ia += 1; ib += 1
            tot = tot * (db if ch == "a" else da)
        elif ch == "A":
            tot = tot * sb[ib]; ib += 1
        else:
            tot = tot * sa[ia]; ia += 1
    single = (len(sa) == 0 or all(isinstance(v, int) and v == 1 for v in sa)) or (len(sb) == 0 or all(isinstance(v, int) and v == 1 for v in sb))
    terms = {} if single else {"out": 2, "a": tot // na if not isinstance(tot, int) or not isinstance(na, int) else tot // na,
                               "b": tot // nb}
    return Call(lambda c: U.add(a, b, **_ckw(c)), lambda: torch.add(a, b), {"a": a, "b": b}, {"a": a, "b": b},
                constrained=["a", "b"], terms=terms)


def spec_embedding(mk: Any, cfg: Dict[str, Any]) -> Call:
    import unit_scaling.functional as U
    V, H = mk.dim("vocab", 2, sample=7), mk.dim("hidden", sample=3)
    lead = _lead(mk, cfg["rank"])
    idx = mk.index("idx", lead, V)
    frozen = bool(cfg.get("frozen"))  # a table that does not require grad (loaded / tied / inference): it must be left alone all the same
    w = mk.tensor("w", (V, H), DT[cfg["dtype"]], grad=not frozen)
    pidx = None
    if cfg.get("padding_idx"):
        pidx = mk.dim("padding_idx", 0, 2 ** 20, sample=1)
        mk.assume(pidx <= V - 1)
    mn = mk.real("max_norm", 0, 1e3, lo_strict=True, default=0.7) if cfg.get("max_norm") else None
    nt = mk.real("norm_type", 1, 4, default=2.0) if cfg.get("max_norm") else 2.0
    batch = SSize(lead).numel() if lead else 1
    return Call(lambda c: U.embedding(idx, w, pidx, mn, nt), lambda: F.embedding(idx, w, pidx, mn, nt), {} if frozen else {"w": w}, {"idx": idx, "w": w},
                unit=True, terms={"w": _sreal(batch) / V} if not cfg.get("padding_idx") and not cfg.get("max_norm") else {})


def spec_sdpa(mk: Any, cfg: Dict[str, Any]) -> Call:
    import unit_scaling.functional as U
    lead = _lead(mk, cfg["rank"])
    s, d = mk.dim("seq", 2 if cfg.get("is_causal") and cfg.get("exclude_seq1", False) else 1, sample=4), mk.dim("d_head", sample=3)
    dt = DT[cfg["dtype"]]
    q, k, v = (mk.tensor(n, lead + (s, d), dt) for n in ("q", "k", "v"))
    m = mk.real("mult", 0, 2 ** 10, lo_strict=True, default=1.7) if cfg.get("mult", True) else 1.0
    p = mk.real("dropout_p", 0, 1, hi_strict=True, default=0.2) if cfg.get("dropout") else 0.0
    causal = bool(cfg.get("is_causal"))
    mask = None
    if cfg.get("mask") == "bool":
        mask = mk.index("mask", (s, s), 2)
        mask = mask.bool() if isinstance(mask, torch.Tensor) else STensor.leaf("mask", (s, s), torch.bool)
    elif cfg.get("mask") == "float":
        mask = mk.tensor("mask", (s, s), dt, grad=False)
    return Call(lambda c: U.scaled_dot_product_attention(q, k, v, attn_mask=mask, dropout_p=p, is_causal=causal, mult=m),
                lambda: TF.scaled_dot_product_attention(q, k, v, attn_mask=mask, dropout_p=p, is_causal=causal, scale=m / d),
                {"q": q, "k": k, "v": v}, {"q": q, "k": k, "v": v}, constrained=["q", "k", "v"], seeded_rng=True)


def spec_cross_entropy(mk: Any, cfg: Dict[str, Any]) -> Call:
    import unit_scaling.functional as U
    V = mk.dim("vocab", 1 if not cfg.get("exclude_vocab1") else 2, sample=5)
    dt = DT[cfg["dtype"]]
    red = cfg.get("reduction", "mean")
    m = mk.real("mult", 0, 2 ** 10, lo_strict=True, default=1.7) if cfg.get("mult", True) else 1.0
    if cfg["rank"] == 2:
        B = mk.dim("batch", sample=3)
        x = mk.tensor("x", (B, V), dt)
        t = mk.index("target", (B,), V)
    else:
        B = 1
        x = mk.tensor("x", (V,), dt)
        t = mk.index("target", (), V)
    ii = -100
    known = {}
    if cfg.get("ignore"):
        ii = mk.dim("ignore_index", 0, 2 ** 20, sample=1) if mk.mode == "sym" else int(mk.model.get("ignore_index", 1))
        if mk.mode == "sym":
            nv = mk.dim("n_valid", 1, 2 ** 20, sample=2)
            mk.assume(nv <= B)
            t.n_valid = nv  # number of targets different from ignore_index (documented 'mean' denominator)
            mk.c.data_vars.append((mk.c.dims["n_valid"], None))  # it is a function of the target VALUES: data, not shape
            known = {"ignored-targets": _sreal(nv).z < _sreal(B).z}
        else:
            nv = int(mk.model.get("n_valid", max(1, int(B) - 1)))
            t = t.clone()
            flat = t.reshape(-1)
            flat[flat == ii] = (ii + 1) % int(V) if int(V) > 1 else flat[flat == ii]
            if int(B) - nv > 0 and flat.numel() > 0:
                flat[: int(B) - nv] = ii
            t = flat.reshape(t.shape)
            mk.tensors["target"] = t
    call = Call(lambda c: U.cross_entropy(x, t, ignore_index=ii, reduction=red, mult=m),
                lambda: F.cross_entropy(m * x, t, ignore_index=ii, reduction=red),
                {"x": x}, {"x": x, "target": t}, unit=True, known=known,
                grad_ref=lambda: F.cross_entropy(m * x, t, ignore_index=ii, reduction="sum"))
    return call


def spec_mse_loss(mk: Any, cfg: Dict[str, Any]) -> Call:
    import unit_scaling.functional as U
    sh = _lead(mk, cfg["rank"])
    dt = DT[cfg["dtype"]]
    tg = bool(cfg.get("target_grad", True))  # the target as plain data (the usual case in training) or as a second differentiable operand
    x, t = mk.tensor("x", sh, dt), mk.tensor("target", sh, dt, grad=tg)
    red = cfg.get("reduction", "mean")
    diff = {"x": x, "target": t} if tg else {"x": x}
    return Call(lambda c: U.mse_loss(x, t, reduction=red), lambda: F.mse_loss(x, t, reduction=red), diff,
                {"x": x, "target": t}, unit=True, grad_ref=lambda: F.mse_loss(x, t, reduction="sum"), terms={"x": 8, "target": 8} if tg else {"x": 8})


SPECS: Dict[str, Callable[[Any, Dict[str, Any]], Call]] = {
    "gelu": spec_gelu, "silu": spec_silu, "silu_glu": spec_silu_glu, "softmax": spec_softmax, "dropout": spec_dropout,
    "matmul": spec_matmul, "linear": _spec_linear(False), "linear_readout": _spec_linear(True), "conv1d": spec_conv1d,
    "layer_norm": spec_layer_norm, "rms_norm": spec_rms_norm, "add": spec_add, "embedding": spec_embedding,
    "scaled_dot_product_attention": spec_sdpa, "cross_entropy": spec_cross_entropy, "mse_loss": spec_mse_loss,
}
CONSTRAINTS = {"gelu": BINARY, "silu": BINARY, "softmax": BINARY, "linear": BINARY, "linear_readout": BINARY,
               "conv1d": BINARY, "matmul": TERNARY, "add": TERNARY}


def configs(op: str, tier: str) -> List[Dict[str, Any]]:
    """Exhaustive enumeration of the discrete selectors (quick: a covering subset)."""
    th = tier == "thorough"
    dts = ["float32", "float64", "bfloat16", "float16"] if th else ["float32", "bfloat16"]
    ranks = [0, 1, 2, 3] if th else [1, 3]
    out: List[Dict[str, Any]] = []
    cons = [None, DEFAULT] + CONSTRAINTS.get(op, [])

    def add(**kw: Any) -> None:
        out.append(dict(op=op, **kw))

    if op in ("gelu", "silu"):
        for r in ranks:
            for c in cons:
                for ap in (["none", "tanh"] if op == "gelu" else ["none"]):
                    add(rank=r, constraint=c, approximate=ap, dtype=dts[(r + len(str(c))) % len(dts)])
    elif op == "silu_glu":
        for r in ranks:
            for dt in dts:
                add(rank=r, constraint=None, dtype=dt)
    elif op == "softmax":
        for r in ([1, 2, 3] if th else [1, 3]):
            for dim in sorted(set([-1, 0, r - 1, -r])):
                for c in (cons if (th or dim == -1) else [None, "gmean"]):
                    add(rank=r, dim=dim, constraint=c, dtype=dts[(r + dim) % len(dts)], sm_dtype=None)
        add(rank=2, dim=-1, constraint="to_output_scale", dtype="bfloat16", sm_dtype=torch.float32)
    elif op == "dropout":
        for r in ranks:
            for tr in (True, False):
                add(rank=r, constraint=None, training=tr, dtype=dts[r % len(dts)])
    elif op == "matmul":
        for lb, rbm in ((0, "same"), (1, "same"), (2, "same"), (1, "none")) if th else ((0, "same"), (1, "same"), (1, "none")):
            for c in cons:
                add(lbatch=lb, rbatch=rbm, constraint=c, dtype=dts[(lb + len(str(c))) % len(dts)])
    elif op in ("linear", "linear_readout"):
        for r in ([0, 1, 2, 3] if th else [1, 2]):
            for bias in (True, False):
                for c in cons:
                    add(rank=r, bias=bias, constraint=c, dtype=dts[(r + len(str(c))) % len(dts)])
    elif op == "conv1d":
        for r in (0, 1):
            for bias in (True, False):
                for c in (cons if (r == 1 and bias) or th else [None, "gmean"]):  # thorough: all constraints everywhere
                    add(rank=r, bias=bias, constraint=c, dtype=dts[r % len(dts)], padding=True)
        add(rank=1, bias=True, constraint=None, dtype="float32", padding=False)
        add(rank=1, bias=True, constraint="gmean", dtype="float32", padding=True, tuples=True)
        add(rank=0, bias=False, constraint=None, dtype="float32", padding=False, stride=False, dilation=False, groups=False)
    elif op in ("layer_norm", "rms_norm"):
        for r in ([0, 1, 2] if th else [1, 2]):
            for nd in (1, 2):
                for w in (True, False):
                    for b in ((True, False) if op == "layer_norm" else (False,)):
                        add(rank=r, norm_dims=nd, weight=w, bias=b, constraint=None, dtype=dts[(r + nd) % len(dts)])
    elif op == "add":
        pats = ["e", "ee", "eee", "ae", "eb", "Ae", "Be", "AAe", "aeb", "BeA"[0:2] + "e", "ea", "Aeb"] if th else ["ee", "ae", "Be", "aeb", "A", "eb"]
        for pat in pats:
            for c in (cons if (th or pat in ("ee", "ae", "Be")) else [None, "gmean", DEFAULT]):
                add(pattern=pat, constraint=c, dtype=dts[len(pat) % len(dts)])
    elif op == "embedding":
        for r in ([0, 1, 2, 3] if th else [1, 2]):
            for pi in (False, True):
                for mn in (False, True):
                    add(rank=r, padding_idx=pi, max_norm=mn, constraint=None, dtype=dts[r % len(dts)])
            add(rank=r, padding_idx=False, max_norm=True, constraint=None, dtype=dts[r % len(dts)], frozen=True)
    elif op == "scaled_dot_product_attention":
        for r in ([0, 1, 2] if th else [0, 2]):
            for causal in (False, True):
                for mask in ((None, "bool", "float") if not causal else (None,)):
                    for drop in (False, True):
                        add(rank=r, is_causal=causal, mask=mask, dropout=drop, constraint=None, dtype=dts[(r + drop) % len(dts)])
    elif op == "cross_entropy":
        for r in (1, 2):
            for red in ("mean", "sum"):
                for ign in ((False, True) if r == 2 else (False,)):
                    add(rank=r, reduction=red, ignore=ign, constraint=None, dtype=dts[r % len(dts)])
    elif op == "mse_loss":
        for r in ranks:
            for red in ("mean", "sum"):
                add(rank=r, reduction=red, constraint=None, dtype=dts[r % len(dts)])
                add(rank=r, reduction=red, constraint=None, dtype=dts[r % len(dts)], target_grad=False)
    if th:  # thorough: every configuration under every dtype (quick rotates the dtype over the configurations)
        full, seen = [], set()
        for cfg in out:
            for dt in dts:
                c2 = dict(cfg, dtype=dt)
                k = repr(sorted((a, str(b)) for a, b in c2.items()))
                if k not in seen:
                    seen.add(k)
                    full.append(c2)
        out = full
    return out


def cfg_name(cfg: Dict[str, Any]) -> str:
    return cfg["op"] + "[" + ",".join(f"{k}={v}" for k, v in cfg.items() if k != "op") + "]"


# =============================================================================== rule oracle (independent of the library)
def rule_value(c: Ctx, name: str, scales: List[Any]) -> Any:
    n = len(scales)
    if name == "gmean":
        g = c.fresh("gm")
        prod = z3.Product(scales)
        c.assumes += [g > 0, z3.Product([g] * n) == prod]
        return g
    if name == "hmean":
        return z3.RealVal(n) / z3.Sum([1 / s for s in scales])
    if name == "amean":
        return z3.Sum(scales) / n
    if name == "to_output_scale":
        return scales[0]
    if name in ("to_grad_input_scale", "to_left_grad_scale"):
        return scales[1]
    if name == "to_right_grad_scale":
        return scales[2]
    raise KeyError(name)


def c_rule_value(name: str, scales: List[float]) -> float:
    n = len(scales)
    if name == "gmean":
        return math.prod(scales) ** (1 / n)
    if name == "hmean":
        return n / sum(1 / s for s in scales)
    if name == "amean":
        return sum(scales) / n
    if name == "to_output_scale":
        return scales[0]
    if name in ("to_grad_input_scale", "to_left_grad_scale"):
        return scales[1]
    if name == "to_right_grad_scale":
        return scales[2]
    raise KeyError(name)


# =============================================================================== symbolic harness
def _ratio(c: Ctx, what: str, res: LC, ref: LC) -> Tuple[Optional[Any], Optional[str], List[Tuple[Any, Any]]]:
    """res = k * ref ?  Returns (k, mismatch, inner pairs)."""
    pairs: List[Tuple[Any, Any]] = []
    if len(res) == 0 or len(ref) == 0:
        return None, f"{what}: empty value", pairs
    if len(res) != len(ref):
        return None, f"{what}: {res!r} vs reference {ref!r}", pairs
    used = [False] * len(ref)
    outer: List[Tuple[Any, Any]] = []
    for ca, ta in res:
        j = next((j for j, (cb, tb) in enumerate(ref) if not used[j] and ta.skel == tb.skel), None)
        if j is None:
            return None, f"{what}: term {ta!r} has no counterpart in reference {ref!r}", pairs
        used[j] = True
        cb, tb = ref[j]
        m = unify(ta, tb, pairs)
        if m:
            return None, f"{what}: {m}", pairs
        outer.append((ca, cb))
    k = c.fresh("k")
    c.assumes.append(k * outer[0][1] == outer[0][0])
    for ca, cb in outer:
        pairs.append((ca, k * cb))
    pairs.append((outer[0][1] != 0, z3.BoolVal(True)))
    return k, None, pairs


def _eq_claim(pairs: List[Tuple[Any, Any]]) -> Any:
    cs = []
    for a, b in pairs:
        if z3.is_bool(a):
            cs.append(a == b)
        else:
            cs.append(a == b)
    return z3.And(cs) if cs else z3.BoolVal(True)


def harness(cfg: Dict[str, Any], props: Sequence[str]) -> Callable[[Ctx], Any]:
    op = cfg["op"]
    kappa = cfg.get("constraint")

    def h(c: Ctx) -> None:
        mk = SymMk(c)
        base = {"op": op, "cfg": _plaincfg(cfg)}
        with Session():
            call = SPECS[op](mk, cfg)
            inputs = [t for t in call.inputs.values() if isinstance(t, STensor)]
            out = call.lib(kappa)
            versions_after_lib = [t.version for t in inputs]  # the PyTorch reference may itself write into its arguments (embedding max_norm)
            ref = call.ref()
            kn = [(k, v) for k, v in call.known.items()]
            # ------------------------------------------------ forward (C01)
            kf, mism, pairs = _ratio(c, "output", out.lc, ref.lc)
            if "C01" in props:
                if mism:
                    c.oblige("fwd: result = c * reference", z3.BoolVal(False), info={**base, "claim": "fwd", "mismatch": mism})
                else:
                    c.oblige("fwd: result = c * reference", _eq_claim(pairs), info={**base, "claim": "fwd", "known": kn})
                    c.oblige("fwd: c > 0", kf > 0, info={**base, "claim": "fwd"})
                    if call.unit:
                        c.oblige("fwd: c = 1", kf == 1, info={**base, "claim": "fwd_unit", "known": kn}, tol=approx(kf, z3.RealVal(1)))
                    _data_independent(c, "fwd: c data-independent", kf, base, kn)
                shp_ok = len(out.shape) == len(ref.shape)
                sh_claim = z3.And([_sreal(a).z == _sreal(b).z for a, b in zip(out.shape, ref.shape)]) if shp_ok and len(out.shape) else z3.BoolVal(shp_ok)
                c.oblige("fwd: same shape as reference", sh_claim, info={**base, "claim": "shape"})
                c.oblige("fwd: same dtype as reference", z3.BoolVal(out.dtype == ref.dtype), info={**base, "claim": "dtype",
                                                                                                "detail": f"{out.dtype} vs {ref.dtype}"})
                c.oblige("no input modified", z3.BoolVal(all(v == 0 for v in versions_after_lib)), info={**base, "claim": "unmodified"})
            # ------------------------------------------------ backward (C02)
            G = STensor.leaf("G", out.shape, out.dtype)
            factors: Dict[str, Any] = {"out": kf}
            need_bwd = any(p in props for p in ("C02", "C03", "C05"))
            if need_bwd and mism and "C01" not in props:
                # never vacuous: if the forward value does not unify with the reference, the gradient claims cannot even be stated
                # symbolically - the real code decides them (free upstream gradient, two data draws)
                c.oblige("grad: gradients = a * reference gradients (forward value did not unify with the reference)", z3.BoolVal(False),
                         info={**base, "claim": "grad", "input": next(iter(call.diff), "out"), "mismatch": mism})
            if need_bwd and not mism:
                for t in call.diff.values():
                    t.grad = None
                out.backward(G)
                lib_g = {n: t.grad for n, t in call.diff.items()}
                for t in call.diff.values():
                    t.grad = None
                gref = call.grad_ref()
                gref.backward(G)
                ref_g = {n: t.grad for n, t in call.diff.items()}
                for n in call.diff:
                    lg, rg = lib_g[n], ref_g[n]
                    if lg is None and rg is None:
                        continue
                    if lg is None or rg is None:
                        if "C02" in props:
                            c.oblige(f"grad[{n}] = a * reference gradient", z3.BoolVal(False),
                                     info={**base, "claim": "grad", "input": n, "mismatch": f"gradient {'missing' if lg is None else 'unexpected'}"})
                        continue
                    ka, gm, gpairs = _ratio(c, f"grad[{n}]", lg, rg)
                    if "C02" in props:
                        if gm:
                            c.oblige(f"grad[{n}] = a * reference gradient", z3.BoolVal(False), info={**base, "claim": "grad", "input": n, "mismatch": gm})
                        else:
                            c.oblige(f"grad[{n}] = a * reference gradient", _eq_claim(gpairs), info={**base, "claim": "grad", "input": n})
                            c.oblige(f"grad[{n}]: a > 0", ka > 0, info={**base, "claim": "grad", "input": n})
                            _data_independent(c, f"grad[{n}]: a data-independent", ka, {**base, "input": n}, kn)
                    if not gm:
                        factors[n] = ka
            # ------------------------------------------------ exact unit scale (C03): only without constraint
            if "C03" in props and kappa is None and not mism:
                for n, tm in call.terms.items():
                    if n in factors and factors[n] is not None:
                        f = factors[n]
                        c.oblige(f"unit scale[{n}]: factor^2 * terms = 1", f * f * _sreal(tm).z == 1,
                                 info={**base, "claim": "unit", "tensor": n}, tol=approx(f * f * _sreal(tm).z, z3.RealVal(1)))
                if op == "linear":
                    c.oblige("control: gmean factor is exact unit scale (must be sat)", factors["out"] * factors["out"] * _sreal(call.terms["x"]).z == 1, kind="control")
            # ------------------------------------------------ constraints (C05)
            if "C05" in props and not mism and op in CONSTRAINTS | {"silu_glu": 0, "scaled_dot_product_attention": 0, "dropout": 0}.keys():
                if op in CONSTRAINTS:
                    for t in call.diff.values():
                        t.grad = None
                    out0 = call.lib(None)
                    k0, m0, p0 = _ratio(c, "output(None)", out0.lc, ref.lc)
                    G0 = STensor.leaf("G", out0.shape, out0.dtype)
                    out0.backward(G0)
                    g0 = {n: t.grad for n, t in call.diff.items()}
                    f0: Dict[str, Any] = {"out": k0}
                    for n in call.diff:
                        if g0[n] is not None and ref_g.get(n) is not None:
                            ka0, _, gp0 = _ratio(c, f"grad0[{n}]", g0[n], ref_g[n])
                            f0[n] = ka0
                    name = kappa
                    if kappa == DEFAULT:
                        name = "to_output_scale" if op != "linear_readout" else None
                    cons_in = [n for n in call.constrained if n in factors]
                    if name is None:
                        for n in ["out"] + list(call.diff):
                            if n in factors and n in f0:
                                c.oblige(f"None: factor[{n}] keeps its own ideal value", factors[n] == f0[n], info={**base, "claim": "c05", "tensor": n}, tol=approx(factors[n], f0[n]))
                        if len(cons_in) >= 1 and op in ("linear", "matmul", "conv1d"):
                            c.oblige("control: None collapses fwd/bwd (must be sat)", factors["out"] == factors[cons_in[0]], kind="control")
                    else:
                        rv = rule_value(c, name, [f0["out"]] + [f0[n] for n in cons_in])
                        for n in ["out"] + cons_in:
                            c.oblige(f"{name}: factor[{n}] = rule(unconstrained scales)", factors[n] == rv, info={**base, "claim": "c05", "tensor": n}, tol=approx(factors[n], rv))
                        for n in call.diff:
                            if n not in cons_in and n in factors and n in f0:
                                c.oblige(f"{name}: weight/bias factor[{n}] unaffected", factors[n] == f0[n], info={**base, "claim": "c05", "tensor": n}, tol=approx(factors[n], f0[n]))
                else:  # fixed-constraint ops: forward factor = every constrained gradient factor
                    for n in call.constrained:
                        if n in factors:
                            c.oblige(f"fixed constraint: factor[{n}] = forward factor", factors[n] == factors["out"], info={**base, "claim": "c05", "tensor": n}, tol=approx(factors[n], factors["out"]))

    return h


def _data_independent(c: Ctx, name: str, k: Any, base: Dict[str, Any], known: Any = None) -> None:
    """Two copies of the data symbols (and of everything derived: factors, roots), same shapes and
    hyperparameters: the factor must coincide."""
    if not c.data_vars:
        return
    data_ids = {v.get_id() for v, _ in c.data_vars}
    shared = {v.get_id() for v in list(c.dims.values()) + list(c.reals.values())} - data_ids
    cons = list(c.assumes) + list(c.defs)
    free: Dict[int, Any] = {}
    for d in cons + [k]:
        for v in _free_vars(d):
            free[v.get_id()] = v
    subs = [(v, z3.Real(f"{v}__copy2")) for i, v in free.items() if i not in shared]
    for d in cons:
        d2 = z3.substitute(d, *subs)
        if not d2.eq(d):
            c.assumes.append(d2)
    known2 = [(sfx, z3.Or(pred, z3.substitute(pred, *subs))) for sfx, pred in (known or [])]  # a listed input in either copy
    c.oblige(name, k == z3.substitute(k, *subs), info={**base, "claim": "data" if "input" not in base else "data_grad", "known": known2})


def _free_vars(e: Any) -> List[Any]:
    out, stack, seen = [], [e], set()
    while stack:
        x = stack.pop()
        if x.get_id() in seen:
            continue
        seen.add(x.get_id())
        if z3.is_const(x) and x.decl().kind() == z3.Z3_OP_UNINTERPRETED:
            out.append(x)
        stack.extend(x.children())
    return out


def _mentions(e: Any, v: Any) -> bool:
    stack, seen = [e], set()
    while stack:
        x = stack.pop()
        if x.get_id() in seen:
            continue
        seen.add(x.get_id())
        if x.eq(v):
            return True
        stack.extend(x.children())
    return False


def _plaincfg(cfg: Dict[str, Any]) -> Dict[str, Any]:
    return {k: (str(v) if isinstance(v, torch.dtype) else v) for k, v in cfg.items()}


# =============================================================================== concrete measurement / replay
def _ratio_c(a: torch.Tensor, b: torch.Tensor) -> Tuple[float, float]:
    a, b = a.detach().double().reshape(-1), b.detach().double().reshape(-1)
    if a.numel() == 0:
        return 1.0, 0.0
    big = b.abs() > 1e-9 * max(b.abs().max().item(), 1e-300)
    if not big.any():
        # reference identically zero: a non-zero result is no multiple of it; zero against zero carries no factor at all (nan = not
        # measurable at this size, e.g. the gradient of a softmax over one element) - a replay can never confirm anything with it
        return (float("nan"), float("inf")) if a.abs().max() > 0 else (float("nan"), 0.0)
    r = a[big] / b[big]
    med = r.median().item()
    dev = ((r - med).abs().max() / max(abs(med), 1e-300)).item()
    # elements where the reference is (near) zero must be (near) zero too
    small = ~big
    if small.any() and a[small].abs().max() > 1e-6 * max(a.abs().max().item(), 1e-300):
        dev = float("inf")
    return med, dev


def measure(cfg: Dict[str, Any], model: Dict[str, Any], seed: int = 0, constraint: Any = "cfg") -> Dict[str, Any]:
    """Run the real function and the PyTorch reference on float64 tensors; return measured factors."""
    op = cfg["op"]
    mk = ConMk(model, seed)
    call = SPECS[op](mk, cfg)
    kappa = cfg.get("constraint") if constraint == "cfg" else constraint
    res: Dict[str, Any] = {}
    snap = {n: t.detach().clone() for n, t in mk.tensors.items()}
    torch.manual_seed(seed)
    out = call.lib(kappa)
    res["modified"] = [n for n, t in mk.tensors.items() if not torch.equal(t.detach(), snap[n])]  # by the LIBRARY call (the PyTorch reference may itself renormalise a table in place)
    for n, t in mk.tensors.items():
        if n in res["modified"]:
            with torch.no_grad():
                t.copy_(snap[n])
    torch.manual_seed(seed)
    ref = call.ref()
    res["shape"] = (tuple(out.shape), tuple(ref.shape))
    res["out"] = _ratio_c(out, ref) if tuple(out.shape) == tuple(ref.shape) else (float("nan"), float("inf"))
    g = torch.randn(out.shape, generator=mk.gen, dtype=out.dtype)
    diff = {n: t for n, t in call.diff.items()}
    torch.manual_seed(seed)
    lg = torch.autograd.grad(out, list(diff.values()), g, allow_unused=True, retain_graph=True)
    torch.manual_seed(seed)
    gref = call.grad_ref()
    rg = torch.autograd.grad(gref, list(diff.values()), g.reshape(gref.shape) if g.numel() == gref.numel() else g, allow_unused=True)
    for (n, _), a, b in zip(diff.items(), lg, rg):
        if a is None or b is None:
            res[n] = (float("nan"), float("inf")) if (a is None) != (b is None) else None
        else:
            res[n] = _ratio_c(a, b)
    return res


def measure_dtype(cfg: Dict[str, Any], model: Dict[str, Any]) -> Tuple[Any, Any]:
    mk = ConMk(model, 0, dtype=None)
    call = SPECS[cfg["op"]](mk, cfg)
    try:
        out, ref = call.lib(cfg.get("constraint")), call.ref()
        return out.dtype, ref.dtype
    except Exception as e:
        return f"{type(e).__name__}: {e}", None


TOL = 1e-7


def replay_functional(obname: str, model: Dict[str, Any], info: Any) -> Tuple[bool, str]:
    """Re-run the counterexample on the real code; True iff the claim really fails."""
    cfg = dict(info["cfg"])
    if cfg.get("sm_dtype") and isinstance(cfg["sm_dtype"], str):
        cfg["sm_dtype"] = getattr(torch, cfg["sm_dtype"].split(".")[-1])
    claim = info.get("claim", "")
    if info.get("mismatch"):
        # structural mismatch: dims are unconstrained by the query - replay at the sample sizes (>= 2 elements per dim)
        model = {k: v for k, v in model.items() if not isinstance(v, int) or isinstance(v, bool)}
    where = f"{cfg_name(cfg)} at {model}"
    if obname == "no-exception" or obname.startswith("definedness"):
        try:
            measure(cfg, model)
        except Exception as e:
            return True, f"{where}: real call raises {type(e).__name__}: {e}"
        return False, f"{where}: real call does not raise"
    model2 = dict(model)
    if claim in ("data", "data_grad") and "n_valid" in model:
        b = int(model.get("batch", 3))
        other = model.get("n_valid__copy2")
        model2["n_valid"] = int(other) if other is not None else (b if int(model["n_valid"]) != b else max(1, b - 1))
    try:
        m1 = measure(cfg, model, seed=1)
        m2 = measure(cfg, model2, seed=2)
    except Exception as e:
        return True, f"{where}: real call raises {type(e).__name__}: {e}"
    if claim == "data_grad":
        claim = "grad"
    if claim in ("fwd", "fwd_unit", "data"):
        (c1, d1), (c2, d2) = m1["out"], m2["out"]
        bad = []
        if not (d1 < TOL and d2 < TOL):
            bad.append(f"output is not a scalar multiple of the PyTorch result (relative spread {d1:.3g}, {d2:.3g})")
        elif abs(c1 - c2) > TOL * abs(c1):
            bad.append(f"factor depends on the data: {c1!r} vs {c2!r}")
        elif not c1 > 0:
            bad.append(f"factor {c1!r} is not positive")
        elif claim == "fwd_unit" and abs(c1 - 1) > TOL:
            bad.append(f"result is {c1!r} x the PyTorch result, expected exactly 1")
        return bool(bad), f"{where}: " + "; ".join(bad or [f"factor {c1!r} consistent"])
    if claim == "shape":
        a, b = m1["shape"]
        return a != b, f"{where}: shape {a} vs PyTorch {b}"
    if claim == "dtype":
        a, b = measure_dtype(cfg, model)
        return a != b, f"{where}: dtype {a} vs PyTorch {b}"
    if claim == "unmodified":
        return bool(m1["modified"]), f"{where}: modified inputs {m1['modified']}"
    if claim == "grad":
        n = info["input"]
        r1, r2 = m1.get(n), m2.get(n)
        if r1 is None:
            return False, f"{where}: no gradient for {n} on either side"
        (a1, d1), (a2, d2) = r1, r2
        bad = []
        if not (d1 < TOL and d2 < TOL):
            bad.append(f"grad[{n}] is not a scalar multiple of PyTorch's gradient (spread {d1:.3g}, {d2:.3g})")
        elif abs(a1 - a2) > TOL * abs(a1):
            bad.append(f"grad[{n}] factor varies with data/upstream gradient: {a1!r} vs {a2!r}")
        elif not a1 > 0:
            bad.append(f"grad[{n}] factor {a1!r} not positive")
        return bool(bad), f"{where}: " + "; ".join(bad or [f"grad[{n}] factor {a1!r} consistent"])
    if claim == "unit":
        n = info["tensor"]
        if cfg["op"] == "conv1d" and n == "x":
            # the interior-position clause needs interior positions: the input-gradient factor does not depend on the sequence length,
            # so the replay uses a sequence long enough to have several stride periods away from both ends
            k_, d_, s_, p_ = (int(model.get(q, dflt)) for q, dflt in (("kernel", 3), ("dilation", 2), ("stride", 2), ("padding", 1)))
            model = dict(model, seq=max(int(model.get("seq", 11)), 4 * (d_ * (k_ - 1) + p_ + s_) + 6 * s_))
            m1 = measure(cfg, model, seed=1)
        f = m1[n][0]
        terms = measure_terms(cfg, model).get(n)
        if terms is None:
            return False, f"{where}: no measured term count for {n}"
        v = f * f * terms
        return abs(v - 1) > 1e-6, f"{where}: factor[{n}]={f!r}, measured terms={terms!r}, factor^2*terms={v!r}"
    if claim == "c05":
        n = info["tensor"]
        kappa = cfg.get("constraint")
        name = kappa
        if kappa == DEFAULT:
            name = "to_output_scale" if cfg["op"] != "linear_readout" else None
        m0 = measure(cfg, model, seed=1, constraint=None)
        call = SPECS[cfg["op"]](ConMk(model, 1), cfg)
        cons_in = [k for k in call.constrained if m1.get(k) is not None]
        got = m1[n][0]
        if cfg["op"] not in CONSTRAINTS:
            want = m1["out"][0]
        elif name is None or n not in ["out"] + cons_in:
            want = m0[n][0]
        else:
            want = c_rule_value(name, [m0["out"][0]] + [m0[k][0] for k in cons_in])
        if got != got or want != want:
            return False, f"{where}: a factor is not measurable at this size (zero reference tensor): nothing to confirm"
        return abs(got - want) > 1e-7 * abs(want), f"{where}: factor[{n}]={got!r}, rule '{name}' of unconstrained scales gives {want!r}"
    return False, f"{where}: unknown claim {claim}"


def measure_terms(cfg: Dict[str, Any], model: Dict[str, Any]) -> Dict[str, float]:
    """Term counts measured on the PyTorch reference with all-ones tensors (bias zero), as the property prescribes."""
    op = cfg["op"]
    mk = ConMk(model, 0, fill=1.0)
    call = SPECS[op](mk, cfg)
    out: Dict[str, float] = {}
    sym_terms = {n: v for n, v in call.terms.items()}
    if op in ("linear", "linear_readout", "matmul", "conv1d", "add"):
        for n, t in mk.tensors.items():
            if n == "b" and op != "add":
                t.data.zero_()
        ref = call.ref()
        if op == "linear_readout":
            out["out"] = float(ref.detach().reshape(-1)[0].item()) ** 2
        else:
            out["out"] = float(ref.detach().double().mean().item())
        gs = torch.autograd.grad(ref, list(call.diff.values()), torch.ones_like(ref), allow_unused=True)
        for (n, _), g in zip(call.diff.items(), gs):
            if g is not None:
                gd = g.detach().double()
                if op == "conv1d" and n == "x":
                    S = int(model.get("stride", 2)) if cfg.get("stride", True) else 1
                    P = int(model.get("padding", 1)) if cfg.get("padding", True) else 0
                    k = int(model.get("kernel", 3)); D = int(model.get("dilation", 2)) if cfg.get("dilation", True) else 1
                    L = gd.shape[-1]
                    lo = D * (k - 1) + P
                    interior = gd[..., lo: max(lo, L - lo - S)]
                    n_per = (interior.shape[-1] // S) * S
                    if n_per == 0:
                        continue
                    out[n] = float(interior[..., :n_per].mean().item())
                else:
                    out[n] = float(gd.mean().item())
    else:
        for n, v in sym_terms.items():
            out[n] = float(v) if not isinstance(v, (SReal, SInt)) else float("nan")
        if op == "dropout":
            p = float(model.get("p", 0.3))
            out = {"out": 1 / (1 - p), "x": 1 / (1 - p)}
        if op in ("layer_norm", "rms_norm"):
            x = mk.tensors["x"]
            nd = cfg.get("norm_dims", 1)
            rows = x.numel() // max(1, int(torch.tensor(x.shape[len(x.shape) - nd:]).prod()))
            out = {n: float(rows) for n in call.terms}
        if op == "embedding":
            idx, w = mk.tensors["idx"], mk.tensors["w"]
            out = {"w": idx.numel() / w.shape[0]}
        if op == "mse_loss":
            out = {"x": 8.0, "target": 8.0}
    return out


def run_config(pid: str, cfg: Dict[str, Any], props: Sequence[str], timeout: float) -> List[Dict[str, Any]]:
    torch.set_num_threads(1)
    recs = discharge(pid, cfg_name(cfg), harness(cfg, props), replay_functional, timeout,
                     base_info={"op": cfg["op"], "cfg": _plaincfg(cfg)}, skip_definedness="C01" not in props)
    return recs


def encoded_functions() -> List[str]:
    import unit_scaling.constraints as uc
    import unit_scaling.core.functional as ucf
    import unit_scaling.functional as U
    import unit_scaling.scale as us

    from ..report import lazy
    fns = [lazy(lambda n=n: getattr(U, n)) for n in SPECS] + [lazy(lambda m=m, a=a: getattr(m, a)) for m, a in (
        (U, "_unscaled_gelu"), (U, "_unscaled_silu"), (U, "_unscaled_softmax"), (U, "_unscaled_rms_norm"), (U, "_get_broadcast_sizes"), (ucf, "scale_elementwise"),
        (ucf, "logarithmic_interpolation"), (ucf, "rms"), (uc, "apply_constraint"), (uc, "gmean"), (uc, "hmean"), (uc, "amean"), (us, "scale_fwd"), (us, "scale_bwd"))]
    fns += [lazy(lambda: us._ScaledGrad.forward), lazy(lambda: us._ScaledGrad.backward)]
    return [describe_function(f) for f in fns]
