"""C01 - forward = PyTorch x one data-independent positive scalar (engine S, all public functional ops)."""
from __future__ import annotations

import inspect
from typing import Any, Dict, List, Tuple

import torch
import z3

from ..par import run_tasks
from ..report import CONCRETE, INCONCLUSIVE, PROVED, Report
from ..sym.runner import discharge
from ..sym.scalar import Ctx
from ..sym.tensor import Session, STensor
from . import funcops as fo

# PyTorch-inherited parameters that the library does not implement: any non-default value must raise.
UNSUPPORTED = {
    "silu": {"inplace": [True]},
    "dropout": {"inplace": [True]},
    "add": {"alpha": ["int"]},
    "embedding": {"scale_grad_by_freq": [True], "sparse": [True]},
    "cross_entropy": {"weight": ["tensor"], "size_average": [True, False], "reduce": [True, False], "label_smoothing": ["real"]},
    "mse_loss": {"size_average": [True, False], "reduce": [True, False]},
}
MINCFG = {
    "silu": dict(rank=1, dtype="float32", constraint=None), "dropout": dict(rank=1, dtype="float32", constraint=None),
    "add": dict(pattern="ee", dtype="float32", constraint=None), "embedding": dict(rank=1, dtype="float32", constraint=None),
    "cross_entropy": dict(rank=2, dtype="float32", constraint=None, reduction="mean"),
    "mse_loss": dict(rank=1, dtype="float32", constraint=None, reduction="mean"),
}


def _call_args(op: str, mk: Any) -> Tuple[List[Any], Dict[str, Any]]:
    """minimal valid positional arguments of U.<op>"""
    dt = torch.float32
    if op in ("silu", "dropout"):
        return [mk.tensor("x", (mk.dim("n", sample=3),), dt)], {}
    if op == "add":
        n = mk.dim("n", sample=3)
        return [mk.tensor("a", (n,), dt), mk.tensor("b", (n,), dt)], {}
    if op == "embedding":
        V, H, B = mk.dim("V", 2, sample=5), mk.dim("H", sample=3), mk.dim("B", sample=4)
        return [mk.index("idx", (B,), V), mk.tensor("w", (V, H), dt)], {}
    if op == "cross_entropy":
        V, B = mk.dim("V", 2, sample=5), mk.dim("B", sample=4)
        return [mk.tensor("x", (B, V), dt), mk.index("t", (B,), V)], {}
    if op == "mse_loss":
        n = mk.dim("n", sample=3)
        return [mk.tensor("x", (n,), dt), mk.tensor("t", (n,), dt)], {}
    raise KeyError(op)


def _value(kind: Any, mk: Any, param: str) -> Any:
    if kind == "int":
        return mk.dim("alpha", 0, 16, sample=2) if mk.mode == "sym" else int(mk.model.get("alpha", 2))
    if kind == "real":
        return mk.real(param, 0, 1, default=0.1)
    if kind == "tensor":
        return mk.tensor("weight_arg", (mk.dim("V", 2, sample=5),), torch.float32, grad=False)
    return kind


def h_unsupported(op: str, param: str, kind: Any, how: str):
    def h(c: Ctx) -> None:
        import unit_scaling.functional as U
        fn = getattr(U, op)
        mk = fo.SymMk(c)
        with Session():
            args, kw = _call_args(op, mk)
            v = _value(kind, mk, param)
            names = list(inspect.signature(fn).parameters)
            default = inspect.signature(fn).parameters[param].default
            if how == "keyword":
                kw[param] = v
            else:
                full = [inspect.signature(fn).parameters[n].default for n in names]
                for i, a in enumerate(args):
                    full[i] = a
                i = names.index(param)
                full = full[: i + 1]
                full[i] = v
                args = full
            raised = None
            try:
                fn(*args, **kw)
            except ValueError as e:
                raised = "ValueError"
            except TypeError as e:
                raised = "TypeError"
        differs = (v != default) if not isinstance(v, STensor) else True
        dz = differs.z if hasattr(differs, "z") else z3.BoolVal(bool(differs))
        c.oblige(f"{param} (by {how}) rejected when non-default", z3.Implies(dz, z3.BoolVal(raised is not None)),
                 info={"op": op, "param": param, "kind": repr(kind), "how": how, "claim": "unsupported"})

    return h


def replay_unsupported(obname: str, model: Dict[str, Any], info: Any) -> Tuple[bool, str]:
    import unit_scaling.functional as U
    op, param, how = info["op"], info["param"], info["how"]
    kind = eval(info["kind"])  # noqa: S307 - our own repr of True/False/'int'/'real'/'tensor'
    fn = getattr(U, op)
    mk = fo.ConMk(model, 0, dtype=torch.float64)
    args, kw = _call_args(op, mk)
    v = _value(kind, mk, param)
    names = list(inspect.signature(fn).parameters)
    base_out = fn(*args)
    if how == "keyword":
        kw[param] = v
    else:
        full = [inspect.signature(fn).parameters[n].default for n in names]
        for i, a in enumerate(args):
            full[i] = a
        i = names.index(param)
        args = full[: i + 1]
        args[i] = v
    try:
        torch.manual_seed(0)
        out = fn(*args, **kw)
    except (ValueError, TypeError) as e:
        return False, f"U.{op}({param}={v!r}) raises {type(e).__name__}"
    torch.manual_seed(0)
    base_out = fn(*[a for a in args[: len(_call_args(op, fo.ConMk(model, 0, dtype=torch.float64))[0])]])
    same = out.shape == base_out.shape and torch.allclose(out, base_out, rtol=0, atol=0, equal_nan=True)
    if same:
        return True, f"U.{op}({param}={v!r} by {how}) is accepted and silently ignored (result identical to the default)"
    return False, f"U.{op}({param}={v!r}) is accepted and changes the result (argument honoured)"


def task_unsupported(op: str, param: str, kind: Any, how: str, timeout: float) -> List[Dict[str, Any]]:
    torch.set_num_threads(1)
    return discharge("C01", f"unsupported/{op}.{param}={kind!r}/{how}", h_unsupported(op, param, kind, how), replay_unsupported, timeout)


def task_signature() -> List[Dict[str, Any]]:
    """every parameter of a U.* function that it shares with its PyTorch counterpart is either exercised by the
    forward harness (USED) or listed as must-be-rejected; a new/forgotten parameter is inconclusive."""
    import unit_scaling.functional as U
    used = {
        "gelu": {"input", "approximate"}, "silu": {"input"}, "softmax": {"input", "dim", "dtype"},
        "dropout": {"input", "p", "training"}, "matmul": set(), "linear": {"input", "weight", "bias"},
        "linear_readout": {"input", "weight", "bias"},
        "conv1d": {"input", "weight", "bias", "stride", "padding", "dilation", "groups"},
        "layer_norm": {"input", "normalized_shape", "weight", "bias", "eps"}, "add": {"input", "other", "out"},
        "embedding": {"input", "weight", "padding_idx", "max_norm", "norm_type"},
        "scaled_dot_product_attention": {"query", "key", "value", "attn_mask", "dropout_p", "is_causal"},
        "cross_entropy": {"input", "target", "ignore_index", "reduction"}, "mse_loss": {"input", "target", "reduction"},
        "rms_norm": {"input", "normalized_shape", "weight", "eps"}, "silu_glu": {"input", "gate"},
    }
    own = {"mult", "constraint", "scale_power", "left", "right"}
    bad = []
    for op, u in used.items():
        ps = set(inspect.signature(getattr(U, op)).parameters)
        rest = {p for p in ps - u - own - set(UNSUPPORTED.get(op, {})) if not p.startswith("_")}  # private torch plumbing (_stacklevel) has no effect on values
        if rest:
            bad.append((op, sorted(rest)))
    if bad:
        return [{"type": "obligation", "name": "signature-coverage", "status": INCONCLUSIVE, "queries": 0,
                 "detail": f"parameters neither exercised nor declared unsupported: {bad}"}]
    return [{"type": "obligation", "name": "signature-coverage", "status": CONCRETE, "queries": 0, "kind": "structural",
             "detail": "every parameter of every public function is exercised against the reference or must be rejected"}]


def run(rep: Report, only: str = "") -> None:
    timeout = 120 if rep.tier == "thorough" else 40
    tasks = []
    for op in fo.SPECS:
        for cfg in fo.configs(op, rep.tier):
            tasks.append((fo.run_config, ("C01", cfg, ["C01"], timeout)))
    for op, ps in UNSUPPORTED.items():
        for param, kinds in ps.items():
            for kind in kinds:
                for how in ("keyword", "positional"):
                    tasks.append((task_unsupported, (op, param, kind, how, timeout)))
    tasks.append((task_signature, ()))
    if only:
        tasks = [t for t in tasks if only in repr(t[1])]
    rep.extend(run_tasks(tasks))
    rep.functions = fo.encoded_functions()
    common_meta(rep)
    rep.sample({"harness": "linear[rank=2,bias=True,constraint=gmean,dtype=bfloat16]", "obligation": "fwd: result = c * reference",
                "meaning": "the value term of U.linear(x,w,b) unifies with c * linear(x,w,b); coefficient equalities decided for all batch dims, fan_in, fan_out"})


def common_meta(rep: Report) -> None:
    rep.bounds = {
        "dims": "every dimension symbolic in [1, 2^20] (relaxed to reals for unsat; integer model required for a counterexample)",
        "hyperparameters": "mult in (0,2^10], p/dropout_p in [0,1), eps in (0,1], max_norm in (0,1e3], stride 1..8, dilation 1..4, padding 0..8, groups 1..4, kernel 1..9",
        "selectors": "op, rank, optional tensors, constraint names (+default, None), approximate, training, is_causal, mask kind, reduction, dtype: enumerated exhaustively per tier",
        "tensor values": "universally quantified (opaque leaves); upstream gradient a free leaf",
        "outside": "floats as reals (rounding of scale factors to the tensor dtype not modelled), non-contiguous inputs, devices other than CPU",
    }
    rep.assumptions = ["torch ops are environment stubs: opaque terms with a shape rule validated against torch meta tensors on every call; "
                       "F.silu is expanded by its definition x*sigmoid(x); F.cross_entropy/F.mse_loss 'mean' = sum / (#non-ignored targets | numel) per PyTorch's documentation",
                       "torch.autograd semantics (gradient accumulation at fan-out, custom Function forward/backward protocol) is the mini-autograd of vf/sym/tensor.py",
                       "python floats are reals; constants already rounded in the source are exact rationals and equalities may be discharged to 1e-9 relative"]
    rep.trusted = ["z3 (nlsat/default portfolio)", "vf/sym/tensor.py handlers", "torch meta tensors for dtype promotion and shape validation"]
    rep.stubs = ["__torch_function__ handlers: linear, matmul, conv1d, softmax, dropout, layer_norm, embedding, sdpa, cross_entropy, mse_loss, elementwise, reductions",
                 "torch.autograd.Function.apply -> runs the class's own forward/backward on symbolic tensors",
                 "torch.tensor / torch.broadcast_shapes wrappers; module-global shims: functional.{F,log,prod}, core.functional.math, constraints.{pow,prod}"]


def replay(data: Dict[str, Any]) -> Tuple[bool, str]:
    info = data.get("info") or {}
    if info.get("claim") == "unsupported":
        return replay_unsupported(data["obligation"], data["model"], info)
    return fo.replay_functional(data["obligation"], data["model"], info)
