"""C05 - constraints collapse forward and backward scales to the value of the named rule (engine S)."""
from __future__ import annotations

import itertools
from typing import Any, Dict, List, Tuple

import torch
import z3

from ..par import run_tasks
from ..report import CONCRETE, INCONCLUSIVE, Report, describe_function
from ..sym.runner import discharge
from ..sym.scalar import Ctx, SReal, approx
import torch.nn.functional as F

from ..sym.tensor import Session, STensor
from . import funcops as fo
from .c01 import common_meta

MEANS = ["gmean", "hmean", "amean"]


def _mx(xs: List[Any]) -> Any:
    m = xs[0]
    for x in xs[1:]:
        m = z3.If(x >= m, x, m)
    return m


def _mn(xs: List[Any]) -> Any:
    m = xs[0]
    for x in xs[1:]:
        m = z3.If(x <= m, x, m)
    return m


def h_rule(name: str, n: int):
    def h(c: Ctx) -> None:
        from unit_scaling.constraints import apply_constraint
        with Session():
            s = [c.real(f"s{i}", Fraction_(1, 10 ** 6), 10 ** 6) for i in range(n)]
            out = apply_constraint(name, *s)
            info = {"rule": name, "n": n}
            c.oblige("one value per scale", z3.BoolVal(len(out) == n), info={**info, "claim": "len"})
            if name in (None, ""):
                for i in range(n):
                    c.oblige(f"None: scale[{i}] unchanged", out[i] == s[i], info={**info, "claim": "none"})
                return
            for i in range(1, n):
                c.oblige(f"all equal [{i}]", out[i] == out[0], info={**info, "claim": "equal"})
            v = out[0].z
            z = [x.z for x in s]
            rv = fo.rule_value(c, name, z)
            c.oblige("value = named rule", v == rv, info={**info, "claim": "rule"}, tol=approx(v, rv))
            c.oblige("value > 0", v > 0, info={**info, "claim": "pos"})
            hard = name == "gmean" and n >= 5  # AM-GM-type inequalities of degree 5, 6: z3 does not finish within minutes - not claimed
            if name in MEANS and not hard:
                c.oblige("min <= mean", _mn(z) <= v, info={**info, "claim": "minmax"})
                c.oblige("mean <= max", v <= _mx(z), info={**info, "claim": "minmax"})
            if name in MEANS:
                if n >= 2:
                    for (i, j) in ([(0, 1), (0, n - 1)] if n > 2 else [(0, 1)]):
                        p = list(s)
                        p[i], p[j] = p[j], p[i]
                        out2 = apply_constraint(name, *p)
                        c.oblige(f"symmetric under swap({i},{j})", out2[0] == out[0], info={**info, "claim": "sym"})
                    c.oblige("control: mean equals first scale (must be sat)", v == z[0], kind="control")
            if name == "gmean" and not hard:
                hm = apply_constraint("hmean", *s)[0]
                am = apply_constraint("amean", *s)[0]
                c.oblige("hmean <= gmean", hm.z <= v, info={**info, "claim": "order"})
                c.oblige("gmean <= amean", v <= am.z, info={**info, "claim": "order"})

    return h


def Fraction_(a: int, b: int) -> Any:
    from fractions import Fraction
    return Fraction(a, b)


def replay_rule(obname: str, model: Dict[str, Any], info: Any) -> Tuple[bool, str]:
    from unit_scaling.constraints import apply_constraint
    name, n = info["rule"], info["n"]
    s = [float(model.get(f"s{i}", 1.0)) for i in range(n)]
    try:
        out = apply_constraint(name, *s)
    except Exception as e:
        return True, f"apply_constraint({name!r}, {s}) raises {type(e).__name__}: {e}"
    bad = []
    if len(out) != n:
        bad.append("wrong arity")
    if name in (None, ""):
        if tuple(out) != tuple(s):
            bad.append(f"None changed the scales: {out}")
    else:
        if any(o != out[0] for o in out):
            bad.append(f"values differ: {out}")
        want = fo.c_rule_value(name, s)
        if abs(out[0] - want) > 1e-9 * abs(want):
            bad.append(f"value {out[0]!r} != rule {want!r}")
        if name in MEANS:
            if not (min(s) * (1 - 1e-12) <= out[0] <= max(s) * (1 + 1e-12)):
                bad.append(f"mean {out[0]!r} outside [{min(s)!r}, {max(s)!r}]")
            for i, j in itertools.combinations(range(n), 2):
                p = list(s)
                p[i], p[j] = p[j], p[i]
                if abs(apply_constraint(name, *p)[0] - out[0]) > 1e-9 * abs(out[0]):
                    bad.append(f"not symmetric under swap({i},{j})")
                    break
        if name == "gmean":
            hm, am = apply_constraint("hmean", *s)[0], apply_constraint("amean", *s)[0]
            if not (hm <= out[0] * (1 + 1e-12) and out[0] <= am * (1 + 1e-12)):
                bad.append(f"order violated: hmean={hm!r} gmean={out[0]!r} amean={am!r}")
    return bool(bad), f"apply_constraint({name!r}, {s}): " + "; ".join(bad or ["ok"])


def task_rule(name: Any, n: int, timeout: float) -> List[Dict[str, Any]]:
    return discharge("C05", f"rule[{name},n={n}]", h_rule(name, n), replay_rule, timeout)


def h_unknown(c: Ctx) -> None:
    """a name that differs from every attribute of the constraints module raises ValueError (one symbolic path)"""
    import unit_scaling.constraints as uc
    raised = False
    try:
        uc.apply_constraint("\x00no-such-constraint\x00", c.real("s0", 1e-6, 1e6), c.real("s1", 1e-6, 1e6))
    except ValueError:
        raised = True
    c.oblige("unknown name raises ValueError", z3.BoolVal(raised), info={"rule": "\x00no-such-constraint\x00", "n": 2, "claim": "unknown"})


def task_unknown() -> List[Dict[str, Any]]:
    return discharge("C05", "unknown-name", h_unknown, replay_rule, 10)


def task_names() -> List[Dict[str, Any]]:
    """Names that ARE module attributes but not constraints (finite set, read by reflection): enumeration, not solving."""
    import unit_scaling.constraints as uc
    documented = {"gmean", "hmean", "amean", "to_output_scale", "to_grad_input_scale", "to_left_grad_scale", "to_right_grad_scale"}
    recs: List[Dict[str, Any]] = []
    accepted = []
    for name in sorted(set(dir(uc)) - documented):
        try:
            r = uc.apply_constraint(name, 2.0, 3.0)
            accepted.append((name, r))
        except ValueError:
            continue
        except Exception as e:
            accepted.append((name, f"{type(e).__name__}"))
    for name, r in accepted:
        recs.append({"type": "violation", "key": f"C05/names/{name}",
                     "what": f"apply_constraint({name!r}, 2.0, 3.0) does not raise ValueError although {name!r} is not a constraint: {r!r}",
                     "replay": {"kind": "name", "name": name}})
    if not accepted:
        recs.append({"type": "obligation", "name": "names/non-constraint attributes rejected", "status": CONCRETE, "queries": 0,
                     "kind": "enumeration", "detail": f"{len(set(dir(uc)) - documented)} module attributes that are not constraints all raise ValueError"})
    return recs


def h_residual_fixed(kind: str):
    """fixed-constraint residual ops: per branch, the forward mixing weight equals the weight applied to its gradient"""

    def h(c: Ctx) -> None:
        import unit_scaling.functional as U
        from ..sym.tensor import STensor
        from .c06 import branch
        mk = fo.SymMk(c)
        with Session():
            tau = c.real("tau", Fraction_(1, 1000), 1000)
            x = mk.tensor("x", fo._lead(mk, 2), torch.float32)
            f = branch("f")
            if kind == "apply":
                y = U.residual_apply(f, x, tau)
            else:
                r, s_ = U.residual_split(x, tau)
                y = U.residual_add(f(r), s_, tau)
            G = STensor.leaf("G", y.shape, y.dtype)
            y.backward(G)
        info = {"residual": kind}
        fwd = {t.op: co for co, t in y.lc}
        bwd = {("f" if t.op.startswith("vjp[f") else t.op): co for co, t in x.grad}
        ok = set(fwd) == {"f", "leaf"} and set(bwd) == {"f", "leaf"}
        c.oblige("structure: output = a*f(x) + b*x, gradient = a'*vjp_f + b'*G", z3.BoolVal(ok), info={**info, "claim": "resfix"})
        if ok:
            c.oblige("residual branch: forward weight = backward weight (true derivative)", fwd["f"] == bwd["f"], info={**info, "claim": "resfix"},
                     tol=approx(fwd["f"], bwd["f"]))
            c.oblige("skip branch: forward weight = backward weight (true derivative)", fwd["leaf"] == bwd["leaf"], info={**info, "claim": "resfix"},
                     tol=approx(fwd["leaf"], bwd["leaf"]))
            c.oblige("control: both branches weighted equally (must be sat)", fwd["f"] == fwd["leaf"], kind="control")

    return h


def replay_residual_fixed(obname: str, model: Dict[str, Any], info: Any) -> Tuple[bool, str]:
    import unit_scaling.functional as U
    tau = float(model.get("tau", 0.3))
    torch.manual_seed(0)
    x = torch.randn(4, 5, dtype=torch.float64, requires_grad=True)
    W = torch.randn(5, 5, dtype=torch.float64)
    f = lambda t: torch.tanh(t @ W)
    y = U.residual_apply(f, x, tau) if info["residual"] == "apply" else U.residual_add(f(U.residual_split(x, tau)[0]), U.residual_split(x, tau)[1], tau)
    if info["residual"] != "apply":
        r, s_ = U.residual_split(x, tau)
        y = U.residual_add(f(r), s_, tau)
    g = torch.randn_like(y)
    (gx,) = torch.autograd.grad(y, x, g)
    x2 = x.detach().clone().requires_grad_(True)
    d = (1 + tau * tau) ** 0.5
    (gt,) = torch.autograd.grad((x2 + tau * f(x2)) / d, x2, g)
    bad = not torch.allclose(gx, gt, rtol=1e-9, atol=1e-12)
    return bad, f"residual ({info['residual']}) tau={tau!r}: autograd gradient {'differs from' if bad else 'equals'} the derivative of the computed function (max abs {(gx - gt).abs().max().item():.3g})"


def task_residual_fixed(kind: str) -> List[Dict[str, Any]]:
    torch.set_num_threads(1)
    return discharge("C05", f"residual-fixed[{kind}]", h_residual_fixed(kind), replay_residual_fixed, 30, base_info={"residual": kind})


# ------------------------------------------------------------------------------------------ history independence
# The same op, first called with "transposed" sizes (the same SET of scale factors in another order), then with the sizes under test:
# the second call's forward factor and gradient factors must be what a fresh process gives.  Nothing here assumes a formula.
HIST_OPS = {
    "linear": "U.linear(x[n,a], w[b,a]) then U.linear(x[n,b], w[a,b])",
    "matmul": "U.matmul(l[n,a], r[a,b]) then U.matmul(l[b,a], r[a,n])",
    "add": "U.add(p[a,1], q[a,b]) then U.add(p[a,b], q[1,b])",
}
HIST_CONS = {"linear": ["to_output_scale", "to_grad_input_scale", "gmean", None], "matmul": ["to_output_scale", "to_left_grad_scale", "to_right_grad_scale", "gmean"],
             "add": ["to_output_scale", "gmean", None]}


def _hist_calls(op: str, mkt: Any, dims: Tuple[Any, Any, Any], which: int) -> Tuple[Any, Any, Dict[str, Any]]:
    """(library call, reference call, differentiable leaves) for the first (which=0) or second (which=1) call of the pair"""
    import unit_scaling.functional as U
    n, a, b = dims
    tag = "first" if which == 0 else "second"
    if op == "linear":
        fi, fo_ = (a, b) if which == 0 else (b, a)
        x, w = mkt(f"x_{tag}", (n, fi)), mkt(f"w_{tag}", (fo_, fi))
        return (lambda k: U.linear(x, w, None, **_kw(k))), (lambda: F.linear(x, w, None)), {"x": x, "w": w}
    if op == "matmul":
        sl, sr = ((n, a), (a, b)) if which == 0 else ((b, a), (a, n))
        l, r = mkt(f"l_{tag}", sl), mkt(f"r_{tag}", sr)
        return (lambda k: U.matmul(l, r, **_kw(k))), (lambda: torch.matmul(l, r)), {"l": l, "r": r}
    sp, sq = ((a, 1), (a, b)) if which == 0 else ((a, b), (1, b))
    p_, q_ = mkt(f"p_{tag}", sp), mkt(f"q_{tag}", sq)
    return (lambda k: U.add(p_, q_, **_kw(k))), (lambda: torch.add(p_, q_)), {"p": p_, "q": q_}


def _kw(k: Any) -> Dict[str, Any]:
    return {} if k is fo.DEFAULT else {"constraint": k}


def _factors(c: Ctx, lib: Any, ref: Any, leaves: Dict[str, Any], kappa: Any, label: str) -> Dict[str, Any]:
    """forward factor and per-leaf gradient factors of one call (fresh z3 symbols tied to the run by assumptions)"""
    out: Dict[str, Any] = {}
    y, yr = lib(kappa), ref()
    k, mism, pairs = fo._ratio(c, f"{label} output", y.lc, yr.lc)
    if mism:
        raise fo.HarnessError(mism)
    c.assumes.append(fo._eq_claim(pairs))
    out["fwd"] = k
    G = STensor.leaf(f"G_{label}", y.shape, y.dtype)
    for t in leaves.values():
        t.grad = None
    y.backward(G)
    got = {nm: t.grad for nm, t in leaves.items()}
    for t in leaves.values():
        t.grad = None
    yr.backward(G)
    for nm, t in leaves.items():
        if got[nm] is None or t.grad is None:
            continue
        kg, mism, pairs = fo._ratio(c, f"{label} grad[{nm}]", got[nm], t.grad)
        if mism:
            raise fo.HarnessError(mism)
        c.assumes.append(fo._eq_claim(pairs))
        out[f"grad[{nm}]"] = kg
        t.grad = None
    return out


def h_history(op: str, kappa: Any):
    def h(c: Ctx) -> None:
        n, a, b = c.dim("n", 2, 2 ** 20, sample=3), c.dim("a", 2, 2 ** 20, sample=5), c.dim("b", 2, 2 ** 20, sample=7)
        info = {"op": op, "constraint": kappa if kappa is not fo.DEFAULT else "<default>", "history": True}

        def mkt(name: str, shape: Tuple[Any, ...]) -> STensor:
            return STensor.leaf(name, shape, torch.float32, requires_grad=True)

        with Session():  # the library state of this session sees the first call, then the second
            lib0, ref0, lv0 = _hist_calls(op, mkt, (n, a, b), 0)
            _factors(c, lib0, ref0, lv0, kappa, "first")
            lib1, ref1, lv1 = _hist_calls(op, mkt, (n, a, b), 1)
            after = _factors(c, lib1, ref1, lv1, kappa, "second-after-first")
        with Session():  # library state reset (Session restores module-level containers and clears lru caches): the second call alone
            lib1, ref1, lv1 = _hist_calls(op, lambda nm, sh: mkt(nm + "'", sh), (n, a, b), 1)
            alone = _factors(c, lib1, ref1, lv1, kappa, "second-alone")
        for key in alone:
            c.oblige(f"{key} factor of the second call does not depend on the first call", after[key] == alone[key], info={**info, "claim": key},
                     tol=approx(after[key], alone[key]))
        c.oblige("control: second call has the first call's factor (must be sat)", after["fwd"] == alone["fwd"] * 2, kind="control")

    return h


_HIST_SCRIPT = r'''
import json, sys, torch
import torch.nn.functional as F
import unit_scaling.functional as U
op, kappa, n, a, b, both = json.loads(sys.argv[1])
kw = {} if kappa == "<default>" else {"constraint": kappa}
def call(which):
    g = torch.Generator().manual_seed(7 + which)
    mk = lambda *s: torch.randn(*s, generator=g, dtype=torch.float64, requires_grad=True)
    if op == "linear":
        fi, fo = (a, b) if which == 0 else (b, a)
        x, w = mk(n, fi), mk(fo, fi); leaves = {"x": x, "w": w}
        y, yr = U.linear(x, w, None, **kw), F.linear(x, w, None)
    elif op == "matmul":
        sl, sr = ((n, a), (a, b)) if which == 0 else ((b, a), (a, n))
        l, r = mk(*sl), mk(*sr); leaves = {"l": l, "r": r}
        y, yr = U.matmul(l, r, **kw), torch.matmul(l, r)
    else:
        sp, sq = ((a, 1), (a, b)) if which == 0 else ((a, b), (1, b))
        p, q = mk(*sp), mk(*sq); leaves = {"p": p, "q": q}
        y, yr = U.add(p, q, **kw), torch.add(p, q)
    G = torch.randn(y.shape, generator=g, dtype=torch.float64)
    res = {"fwd": float((y.detach() * yr.detach()).sum() / (yr.detach() ** 2).sum())}
    gl = torch.autograd.grad(y, list(leaves.values()), G)
    gr = torch.autograd.grad(yr, list(leaves.values()), G)
    for nm, u, v in zip(leaves, gl, gr):
        res["grad[%s]" % nm] = float((u * v).sum() / (v ** 2).sum())
    return res
if both:
    call(0)
print(json.dumps(call(1)))
'''


def replay_history(obname: str, model: Dict[str, Any], info: Any) -> Tuple[bool, str]:
    """two clean processes: the second call alone, and after the first call; least-squares factors must agree to 1e-9"""
    import json
    import os
    import subprocess
    import sys
    n, a, b = (min(int(model.get(k, d)), 48) for k, d in (("n", 3), ("a", 5), ("b", 7)))
    res = []
    for both in (False, True):
        arg = json.dumps([info["op"], info["constraint"], n, a, b, both])
        p = subprocess.run([sys.executable, "-c", _HIST_SCRIPT, arg], capture_output=True, text=True, timeout=600, env=dict(os.environ))
        if p.returncode != 0:
            return both, f"{info['op']} history replay {'(after first call) ' if both else ''}raises: {p.stderr.strip().splitlines()[-1] if p.stderr.strip() else p.returncode}"
        res.append(json.loads(p.stdout.strip().splitlines()[-1]))
    alone, after = res
    bad = [f"{k}: {after[k]!r} after the first call, {alone[k]!r} alone" for k in alone if abs(after[k] - alone[k]) > 1e-9 * max(abs(alone[k]), 1e-300)]
    return bool(bad), f"{HIST_OPS[info['op']]} with constraint {info['constraint']!r} at n={n}, a={a}, b={b}: " + "; ".join(bad or ["same factors"])


def task_history(op: str, kappa: Any, timeout: float) -> List[Dict[str, Any]]:
    torch.set_num_threads(1)
    kn = kappa if kappa is not fo.DEFAULT else "<default>"
    return discharge("C05", f"history[{op},{kn}]", h_history(op, kappa), replay_history, timeout,
                     base_info={"op": op, "constraint": kn, "history": True}, skip_definedness=True)


def run(rep: Report, only: str = "") -> None:
    import unit_scaling.constraints as uc
    thorough = rep.tier == "thorough"
    timeout = 240 if thorough else 60
    tasks: List[Any] = []
    for n in range(1, 7 if thorough else 5):
        for name in MEANS + ["to_output_scale", None, ""]:
            tasks.append((task_rule, (name, n, timeout)))
    tasks += [(task_rule, ("to_grad_input_scale", 2, timeout)), (task_rule, ("to_left_grad_scale", 3, timeout)),
              (task_rule, ("to_right_grad_scale", 3, timeout))]
    tasks.append((task_unknown, ()))
    tasks.append((task_names, ()))
    tasks += [(task_residual_fixed, ("split-add",)), (task_residual_fixed, ("apply",))]
    tasks += [(task_history, (op, k, timeout)) for op in HIST_OPS for k in HIST_CONS[op]]
    ops = list(fo.CONSTRAINTS) + ["silu_glu", "scaled_dot_product_attention"]
    for op in ops:
        for cfg in fo.configs(op, rep.tier):
            tasks.append((fo.run_config, ("C05", cfg, ["C05"], timeout)))
    if only:
        tasks = [t for t in tasks if only in repr(t[1]) or only in t[0].__name__]
    tasks.sort(key=lambda t: -(t[1][1] if t[0] is task_rule else 0))
    rep.extend(run_tasks(tasks))
    rep.functions = fo.encoded_functions() + [describe_function(getattr(uc, n, None)) for n in
                                             ("to_output_scale", "to_grad_input_scale", "to_left_grad_scale", "to_right_grad_scale")]
    common_meta(rep)
    rep.bounds["rules"] = (f"apply_constraint + rule functions with n = 1..{6 if thorough else 4} symbolic scales in [1e-6, 1e6]; n = 5, 6 only in the thorough tier; "
                           "for the geometric mean with n = 5, 6 only the equalities (all outputs equal, value = n-th root of the product, symmetry) are decided: "
                           "min <= gmean <= max and hmean <= gmean <= amean of degree 5, 6 exceed z3's reach (minutes) and are NOT claimed for n >= 5")
    rep.bounds["names"] = "unknown-name clause: one symbolic path for a name outside the module namespace; names inside the namespace enumerated by reflection (labelled enumeration)"
    rep.bounds["true-derivative"] = ("forward factor = constrained gradient factors proved for all shapes in opaque mode, i.e. the library gradient is the reference vjp "
                                     "of the same expression times the same scalar; finite-difference agreement is a consequence, not separately computed")
    rep.sample({"harness": "rule[gmean,n=3]", "obligation": "hmean <= gmean", "vars": "s0,s1,s2 in [1e-6,1e6]"})


def replay(data: Dict[str, Any]) -> Tuple[bool, str]:
    if data.get("kind") == "name":
        recs = task_names()
        v = [r for r in recs if r.get("type") == "violation" and r["key"].endswith("/" + data["name"])]
        return bool(v), str(v or "rejected")
    info = data.get("info") or {}
    if info.get("history"):
        return replay_history(data["obligation"], data["model"], info)
    if "residual" in info:
        return replay_residual_fixed(data["obligation"], data["model"], info)
    if "rule" in info:
        return replay_rule(data["obligation"], data["model"], info)
    return fo.replay_functional(data["obligation"], data["model"], info)
