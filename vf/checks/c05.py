"""C05 - constraints collapse forward and backward scales to the value of the named rule (engine S)."""
from __future__ import annotations

import itertools
from typing import Any, Dict, List, Tuple

import torch
import z3

from ..par import run_tasks
from ..report import CONCRETE, INCONCLUSIVE, Report, describe_function
from ..sym.runner import discharge
from ..sym.scalar import Ctx, SReal, approx
from ..sym.tensor import Session
from . import funcops as fo
from .c01 import common_meta

MEANS = ["gmean", "hmean", "amean"]


def _mx(xs: List[Any]) -> Any:
    m = xs[0]
    for x in xs[1:]:
        m = z3.If(x >= m, x, m)
    return m


def _mn(xs: List[Any]) -> Any:
    m = xs[0]
    for x in xs[1:]:
        m = z3.If(x <= m, x, m)
    return m


def h_rule(name: str, n: int):
    def h(c: Ctx) -> None:
        from unit_scaling.constraints import apply_constraint
        with Session():
            s = [c.real(f"s{i}", Fraction_(1, 10 ** 6), 10 ** 6) for i in range(n)]
            out = apply_constraint(name, *s)
            info = {"rule": name, "n": n}
            c.oblige("one value per scale", z3.BoolVal(len(out) == n), info={**info, "claim": "len"})
            if name in (None, ""):
                for i in range(n):
                    c.oblige(f"None: scale[{i}] unchanged", out[i] == s[i], info={**info, "claim": "none"})
                return
            for i in range(1, n):
                c.oblige(f"all equal [{i}]", out[i] == out[0], info={**info, "claim": "equal"})
            v = out[0].z
            z = [x.z for x in s]
            rv = fo.rule_value(c, name, z)
            c.oblige("value = named rule", v == rv, info={**info, "claim": "rule"}, tol=approx(v, rv))
            c.oblige("value > 0", v > 0, info={**info, "claim": "pos"})
            hard = name == "gmean" and n >= 5  # AM-GM-type inequalities of degree 5, 6: z3 does not finish within minutes - not claimed
            if name in MEANS and not hard:
                c.oblige("min <= mean", _mn(z) <= v, info={**info, "claim": "minmax"})
                c.oblige("mean <= max", v <= _mx(z), info={**info, "claim": "minmax"})
            if name in MEANS:
                if n >= 2:
                    for (i, j) in ([(0, 1), (0, n - 1)] if n > 2 else [(0, 1)]):
                        p = list(s)
                        p[i], p[j] = p[j], p[i]
                        out2 = apply_constraint(name, *p)
                        c.oblige(f"symmetric under swap({i},{j})", out2[0] == out[0], info={**info, "claim": "sym"})
                    c.oblige("control: mean equals first scale (must be sat)", v == z[0], kind="control")
            if name == "gmean" and not hard:
                hm = apply_constraint("hmean", *s)[0]
                am = apply_constraint("amean", *s)[0]
                c.oblige("hmean <= gmean", hm.z <= v, info={**info, "claim": "order"})
                c.oblige("gmean <= amean", v <= am.z, info={**info, "claim": "order"})

    return h


def Fraction_(a: int, b: int) -> Any:
    from fractions import Fraction
    return Fraction(a, b)


def replay_rule(obname: str, model: Dict[str, Any], info: Any) -> Tuple[bool, str]:
    from unit_scaling.constraints import apply_constraint
    name, n = info["rule"], info["n"]
    s = [float(model.get(f"s{i}", 1.0)) for i in range(n)]
    try:
        out = apply_constraint(name, *s)
    except Exception as e:
        return True, f"apply_constraint({name!r}, {s}) raises {type(e).__name__}: {e}"
    bad = []
    if len(out) != n:
        bad.append("wrong arity")
    if name in (None, ""):
        if tuple(out) != tuple(s):
            bad.append(f"None changed the scales: {out}")
    else:
        if any(o != out[0] for o in out):
            bad.append(f"values differ: {out}")
        want = fo.c_rule_value(name, s)
        if abs(out[0] - want) > 1e-9 * abs(want):
            bad.append(f"value {out[0]!r} != rule {want!r}")
        if name in MEANS:
            if not (min(s) * (1 - 1e-12) <= out[0] <= max(s) * (1 + 1e-12)):
                bad.append(f"mean {out[0]!r} outside [{min(s)!r}, {max(s)!r}]")
            for i, j in itertools.combinations(range(n), 2):
                p = list(s)
                p[i], p[j] = p[j], p[i]
                if abs(apply_constraint(name, *p)[0] - out[0]) > 1e-9 * abs(out[0]):
                    bad.append(f"not symmetric under swap({i},{j})")
                    break
        if name == "gmean":
            hm, am = apply_constraint("hmean", *s)[0], apply_constraint("amean", *s)[0]
            if not (hm <= out[0] * (1 + 1e-12) and out[0] <= am * (1 + 1e-12)):
                bad.append(f"order violated: hmean={hm!r} gmean={out[0]!r} amean={am!r}")
    return bool(bad), f"apply_constraint({name!r}, {s}): " + "; ".join(bad or ["ok"])


def task_rule(name: Any, n: int, timeout: float) -> List[Dict[str, Any]]:
    return discharge("C05", f"rule[{name},n={n}]", h_rule(name, n), replay_rule, timeout)


def h_unknown(c: Ctx) -> None:
    """a name that differs from every attribute of the constraints module raises ValueError (one symbolic path)"""
    import unit_scaling.constraints as uc
    raised = False
    try:
        uc.apply_constraint("\x00no-such-constraint\x00", c.real("s0", 1e-6, 1e6), c.real("s1", 1e-6, 1e6))
    except ValueError:
        raised = True
    c.oblige("unknown name raises ValueError", z3.BoolVal(raised), info={"rule": "\x00no-such-constraint\x00", "n": 2, "claim": "unknown"})


def task_unknown() -> List[Dict[str, Any]]:
    return discharge("C05", "unknown-name", h_unknown, replay_rule, 10)


def task_names() -> List[Dict[str, Any]]:
    """Names that ARE module attributes but not constraints (finite set, read by reflection): enumeration, not solving."""
    import unit_scaling.constraints as uc
    documented = {"gmean", "hmean", "amean", "to_output_scale", "to_grad_input_scale", "to_left_grad_scale", "to_right_grad_scale"}
    recs: List[Dict[str, Any]] = []
    accepted = []
    for name in sorted(set(dir(uc)) - documented):
        try:
            r = uc.apply_constraint(name, 2.0, 3.0)
            accepted.append((name, r))
        except ValueError:
            continue
        except Exception as e:
            accepted.append((name, f"{type(e).__name__}"))
    for name, r in accepted:
        recs.append({"type": "violation", "key": f"C05/names/{name}",
                     "what": f"apply_constraint({name!r}, 2.0, 3.0) does not raise ValueError although {name!r} is not a constraint: {r!r}",
                     "replay": {"kind": "name", "name": name}})
    if not accepted:
        recs.append({"type": "obligation", "name": "names/non-constraint attributes rejected", "status": CONCRETE, "queries": 0,
                     "kind": "enumeration", "detail": f"{len(set(dir(uc)) - documented)} module attributes that are not constraints all raise ValueError"})
    return recs


def h_residual_fixed(kind: str):
    """fixed-constraint residual ops: per branch, the forward mixing weight equals the weight applied to its gradient"""

    def h(c: Ctx) -> None:
        import unit_scaling.functional as U
        from ..sym.tensor import STensor
        from .c06 import branch
        mk = fo.SymMk(c)
        with Session():
            tau = c.real("tau", Fraction_(1, 1000), 1000)
            x = mk.tensor("x", fo._lead(mk, 2), torch.float32)
            f = branch("f")
            if kind == "apply":
                y = U.residual_apply(f, x, tau)
            else:
                r, s_ = U.residual_split(x, tau)
                y = U.residual_add(f(r), s_, tau)
            G = STensor.leaf("G", y.shape, y.dtype)
            y.backward(G)
        info = {"residual": kind}
        fwd = {t.op: co for co, t in y.lc}
        bwd = {("f" if t.op.startswith("vjp[f") else t.op): co for co, t in x.grad}
        ok = set(fwd) == {"f", "leaf"} and set(bwd) == {"f", "leaf"}
        c.oblige("structure: output = a*f(x) + b*x, gradient = a'*vjp_f + b'*G", z3.BoolVal(ok), info={**info, "claim": "resfix"})
        if ok:
            c.oblige("residual branch: forward weight = backward weight (true derivative)", fwd["f"] == bwd["f"], info={**info, "claim": "resfix"},
                     tol=approx(fwd["f"], bwd["f"]))
            c.oblige("skip branch: forward weight = backward weight (true derivative)", fwd["leaf"] == bwd["leaf"], info={**info, "claim": "resfix"},
                     tol=approx(fwd["leaf"], bwd["leaf"]))
            c.oblige("control: both branches weighted equally (must be sat)", fwd["f"] == fwd["leaf"], kind="control")

    return h


def replay_residual_fixed(obname: str, model: Dict[str, Any], info: Any) -> Tuple[bool, str]:
    import unit_scaling.functional as U
    tau = float(model.get("tau", 0.3))
    torch.manual_seed(0)
    x = torch.randn(4, 5, dtype=torch.float64, requires_grad=True)
    W = torch.randn(5, 5, dtype=torch.float64)
    f = lambda t: torch.tanh(t @ W)
    y = U.residual_apply(f, x, tau) if info["residual"] == "apply" else U.residual_add(f(U.residual_split(x, tau)[0]), U.residual_split(x, tau)[1], tau)
    if info["residual"] != "apply":
        r, s_ = U.residual_split(x, tau)
        y = U.residual_add(f(r), s_, tau)
    g = torch.randn_like(y)
    (gx,) = torch.autograd.grad(y, x, g)
    x2 = x.detach().clone().requires_grad_(True)
    d = (1 + tau * tau) ** 0.5
    (gt,) = torch.autograd.grad((x2 + tau * f(x2)) / d, x2, g)
    bad = not torch.allclose(gx, gt, rtol=1e-9, atol=1e-12)
    return bad, f"residual ({info['residual']}) tau={tau!r}: autograd gradient {'differs from' if bad else 'equals'} the derivative of the computed function (max abs {(gx - gt).abs().max().item():.3g})"


def task_residual_fixed(kind: str) -> List[Dict[str, Any]]:
    torch.set_num_threads(1)
    return discharge("C05", f"residual-fixed[{kind}]", h_residual_fixed(kind), replay_residual_fixed, 30, base_info={"residual": kind})


def run(rep: Report, only: str = "") -> None:
    import unit_scaling.constraints as uc
    thorough = rep.tier == "thorough"
    timeout = 240 if thorough else 60
    tasks: List[Any] = []
    for n in range(1, 7 if thorough else 5):
        for name in MEANS + ["to_output_scale", None, ""]:
            tasks.append((task_rule, (name, n, timeout)))
    tasks += [(task_rule, ("to_grad_input_scale", 2, timeout)), (task_rule, ("to_left_grad_scale", 3, timeout)),
              (task_rule, ("to_right_grad_scale", 3, timeout))]
    tasks.append((task_unknown, ()))
    tasks.append((task_names, ()))
    tasks += [(task_residual_fixed, ("split-add",)), (task_residual_fixed, ("apply",))]
    ops = list(fo.CONSTRAINTS) + ["silu_glu", "scaled_dot_product_attention"]
    for op in ops:
        for cfg in fo.configs(op, rep.tier):
            tasks.append((fo.run_config, ("C05", cfg, ["C05"], timeout)))
    if only:
        tasks = [t for t in tasks if only in repr(t[1])]
    tasks.sort(key=lambda t: -(t[1][1] if t[0] is task_rule else 0))
    rep.extend(run_tasks(tasks))
    rep.functions = fo.encoded_functions() + [describe_function(getattr(uc, n)) for n in
                                             ("to_output_scale", "to_grad_input_scale", "to_left_grad_scale", "to_right_grad_scale")]
    common_meta(rep)
    rep.bounds["rules"] = (f"apply_constraint + rule functions with n = 1..{6 if thorough else 4} symbolic scales in [1e-6, 1e6]; n = 5, 6 only in the thorough tier; "
                           "for the geometric mean with n = 5, 6 only the equalities (all outputs equal, value = n-th root of the product, symmetry) are decided: "
                           "min <= gmean <= max and hmean <= gmean <= amean of degree 5, 6 exceed z3's reach (minutes) and are NOT claimed for n >= 5")
    rep.bounds["names"] = "unknown-name clause: one symbolic path for a name outside the module namespace; names inside the namespace enumerated by reflection (labelled enumeration)"
    rep.bounds["true-derivative"] = ("forward factor = constrained gradient factors proved for all shapes in opaque mode, i.e. the library gradient is the reference vjp "
                                     "of the same expression times the same scalar; finite-difference agreement is a consequence, not separately computed")
    rep.sample({"harness": "rule[gmean,n=3]", "obligation": "hmean <= gmean", "vars": "s0,s1,s2 in [1e-6,1e6]"})


def replay(data: Dict[str, Any]) -> Tuple[bool, str]:
    if data.get("kind") == "name":
        recs = task_names()
        v = [r for r in recs if r.get("type") == "violation" and r["key"].endswith("/" + data["name"])]
        return bool(v), str(v or "rejected")
    info = data.get("info") or {}
    if "residual" in info:
        return replay_residual_fixed(data["obligation"], data["model"], info)
    if "rule" in info:
        return replay_rule(data["obligation"], data["model"], info)
    return fo.replay_functional(data["obligation"], data["model"], info)
