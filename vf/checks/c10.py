"""C10 - optimizer learning rates follow the u-muP rule (engine S on the real unit_scaling.optim code)."""
from __future__ import annotations

from typing import Any, Dict, List, Tuple

import torch
import z3

from ..par import run_tasks
from ..report import Report
from ..sym.runner import discharge
from ..sym.scalar import Ctx
from ..sym.tensor import Session, STensor
from . import optimops as oo


def h_errors(case: str, api: str, lrk: str):
    def h(c: Ctx) -> None:
        cfg = {"api": api, "structure": "bare", "lr": lrk, "independent_wd": True, "params": []}
        info = {"case": case, "api": api, "lr": lrk}
        with Session():
            lr0 = c.real("lr", 1e-8, 1e2)
            lr = STensor.scalar(lr0) if lrk == "tensor" else lr0
            good = oo.sym_param(c, "p0", 2, "weight", "none")
            raised = None
            out = None
            try:
                if case == "untagged":
                    out = oo._call_api(cfg, [good, oo.sym_param(c, "p1", 2, "<missing>", "none")], lr, 0.0)
                elif case == "untagged_allowed":
                    out = oo._call_api(cfg, [good, oo.sym_param(c, "p1", 2, "<missing>", "none")], lr, 0.0, allow=True)
                elif case == "invalid_tag":
                    out = oo._call_api(cfg, [oo.sym_param(c, "p1", 2, "weights", "none")], lr, 0.0)
                elif case == "bad_depth":
                    out = oo._call_api(cfg, [oo.sym_param(c, "p1", 2, "weight", "bad")], lr, 0.0)
                elif case == "rank4_weight":
                    out = oo._call_api(cfg, [oo.sym_param(c, "p1", 4, "weight", "none")], lr, 0.0)
                elif case == "rank4_bias":  # only the fan-in of a weight is undefined for >= 4 dims
                    out = oo._call_api(cfg, [oo.sym_param(c, "p1", 4, "output", "none")], lr, 0.0)
                elif case == "missing_lr":
                    if api.startswith("scaled"):
                        out = oo._call_api(cfg, [good], None, 0.0)
                    else:
                        out = oo._call_api(cfg, [{"params": [good]}], None, 0.0)  # falls back to the class default 1e-3
                elif case == "missing_lr_group_has":
                    out = oo._call_api(cfg, [{"params": [good], "lr": lr}], None, 0.0)
            except ValueError:
                raised = "ValueError"
            if case in ("untagged", "invalid_tag", "bad_depth", "rank4_weight") or (case == "missing_lr" and api.startswith("scaled")):
                c.oblige(f"{case}: ValueError", z3.BoolVal(raised == "ValueError"), info={**info, "claim": "raises"})
            elif case == "untagged_allowed":
                ok = raised is None and out is not None and len(out) == 2
                c.oblige("untagged allowed: accepted", z3.BoolVal(ok), info={**info, "claim": "accepted"})
                if ok:
                    c.oblige("untagged allowed: left unscaled", oo.lr_value(out[1]["lr"]) == lr0.z, info={**info, "claim": "unscaled"})
            elif case == "rank4_bias":
                c.oblige("4-d non-weight parameter accepted with factor 1", z3.BoolVal(raised is None) if raised else oo.lr_value(out[0]["lr"]) == lr0.z,
                         info={**info, "claim": "rank4ok"})
            elif case == "missing_lr_group_has":
                c.oblige("group's own lr suffices", z3.BoolVal(raised is None), info={**info, "claim": "accepted"})
            elif case == "missing_lr":
                c.oblige("optimizer class uses its default lr", z3.BoolVal(raised is None), info={**info, "claim": "accepted"})

    return h


def replay_errors(obname: str, model: Dict[str, Any], info: Any) -> Tuple[bool, str]:
    import unit_scaling as uu
    case, api, lrk = info["case"], info["api"], info["lr"]
    cfg = {"api": api, "structure": "bare", "lr": lrk, "independent_wd": True, "params": []}
    lrv = float(model.get("lr", 0.1))
    lr = torch.tensor(lrv, dtype=torch.float64) if lrk == "tensor" else lrv
    good = uu.Parameter(torch.ones(3, 4), "weight")
    plain = torch.nn.Parameter(torch.ones(3, 4))
    raised, out = None, None
    try:
        if case == "untagged":
            out = oo._call_api(cfg, [good, plain], lr, 0.0)
        elif case == "untagged_allowed":
            out = oo._call_api(cfg, [good, plain], lr, 0.0, allow=True)
        elif case == "invalid_tag":
            p = uu.Parameter(torch.ones(3, 4), "weights")  # type: ignore[arg-type]
            out = oo._call_api(cfg, [p], lr, 0.0)
        elif case == "bad_depth":
            p = uu.Parameter(torch.ones(3, 4), "weight", "three")  # type: ignore[arg-type]
            out = oo._call_api(cfg, [p], lr, 0.0)
        elif case == "rank4_weight":
            out = oo._call_api(cfg, [uu.Parameter(torch.ones(2, 2, 2, 2), "weight")], lr, 0.0)
        elif case == "rank4_bias":
            out = oo._call_api(cfg, [uu.Parameter(torch.ones(2, 2, 2, 2), "output")], lr, 0.0)
        elif case == "missing_lr":
            out = oo._call_api(cfg, [good] if api.startswith("scaled") else [{"params": [good]}], None, 0.0)
        elif case == "missing_lr_group_has":
            out = oo._call_api(cfg, [{"params": [good], "lr": lr}], None, 0.0)
    except ValueError:
        raised = "ValueError"
    except Exception as e:
        raised = type(e).__name__
    claim = info.get("claim")
    d = f"{case}/{api}/lr={lrk}: raised={raised}"
    if claim == "raises":
        return raised != "ValueError", d
    if claim in ("accepted", "rank4ok"):
        return raised is not None, d
    if claim == "unscaled":
        return raised is not None or abs(float(out[1]["lr"]) - lrv) > 1e-12, d + f" lr={out and float(out[1]['lr'])}"
    return False, d


def task_errors(case: str, api: str, lrk: str, timeout: float) -> List[Dict[str, Any]]:
    torch.set_num_threads(1)
    return discharge("C10", f"errors/{case}/{api}/lr={lrk}", h_errors(case, api, lrk), replay_errors, timeout)


def crosshair_second_opinion() -> List[Dict[str, Any]]:
    """CrossHair (symbolic execution with z3) on the pure-int helper _get_fan_in, as an independent engine."""
    import os
    import subprocess
    import sys
    import tempfile
    import time
    from ..report import CONCRETE, INCONCLUSIVE, PROVED
    src = '''
from typing import Tuple
import sys
sys.path.insert(0, "''' + os.environ.get("VERIF_REPO", "/repo") + '''")
import unit_scaling.optim as _uo, unit_scaling.parameter as _up
# a PRIVATE helper: found under whatever module / name the tree gives it
_get_fan_in = next((getattr(m, n) for m in (_uo, _up) for n in ("_get_fan_in", "get_fan_in", "fan_in", "_fan_in") if callable(getattr(m, n, None))), None)
if _get_fan_in is None:
    raise SystemExit("NO-HELPER")

class P:
    def __init__(self, shape):
        self.shape = shape

def fan_in_rule(a: int, b: int, c: int, rank: int) -> int:
    """
    pre: 1 <= a <= 4096 and 1 <= b <= 4096 and 1 <= c <= 4096 and 1 <= rank <= 3
    post: __return__ == (a if rank == 1 else b if rank == 2 else b * c)
    """
    return _get_fan_in(P((a, b, c)[:rank]))
'''
    d = tempfile.mkdtemp(prefix="vf_ch_", dir="/var/tmp")
    path = os.path.join(d, "ch_fanin.py")
    with open(path, "w") as f:
        f.write(src)
    t0 = time.time()
    try:
        r = subprocess.run([sys.executable, "-m", "crosshair", "check", "--report_all", "--per_condition_timeout", "20", path],
                           capture_output=True, text=True, timeout=120)
        out = (r.stdout + r.stderr).strip()
    except Exception as e:
        out = f"crosshair failed to run: {e}"
    finally:
        import shutil
        shutil.rmtree(d, ignore_errors=True)
    secs = time.time() - t0
    # An auxiliary second engine on a private helper: it can add a confirmation, never an alarm (the lr claims of the main engine cover the
    # fan-in of every tagged parameter; a refactoring that renames or moves the helper must not trip anything).
    if "Confirmed over all paths" in out:
        st = PROVED
    else:
        st = CONCRETE  # not confirmed / helper absent / crosshair trouble: recorded, not counted as a proof, not an alarm
    return [{"type": "obligation", "name": "crosshair/_get_fan_in = rule", "status": st, "secs": secs, "detail": out[-300:], "queries": 1}]


def run(rep: Report, only: str = "") -> None:
    thorough = rep.tier == "thorough"
    timeout = 120 if thorough else 40
    tasks: List[Any] = [(oo.run_config, ("C10", cfg, ["C10"], timeout)) for cfg in oo.configs(rep.tier)]
    for case in ("untagged", "untagged_allowed", "invalid_tag", "bad_depth", "rank4_weight", "rank4_bias", "missing_lr", "missing_lr_group_has"):
        for api in ("scaled_adam", "scaled_sgd_out", "Adam", "AdamW", "SGD_out"):
            for lrk in ("float", "tensor"):
                tasks.append((task_errors, (case, api, lrk, timeout)))
    tasks.append((crosshair_second_opinion, ()))
    if only:
        tasks = [t for t in tasks if only in repr(t[1])]
    rep.extend(run_tasks(tasks))
    rep.functions = oo.encoded_functions()
    rep.bounds = {"shapes": "rank 1-3 (4 for the error clause), every dim symbolic in [1,4096]", "depth": "None or symbolic in [1,1024]",
                  "lr": "symbolic real in [1e-8,1e2], as Python float or 0-dim tensor", "tags": "4 valid tags, missing, invalid string, non-int depth",
                  "entry points": "scaled_parameters with the Adam rule / SGD rule (both readout constraints), and SGD/Adam/AdamW constructors (torch base __init__ recorded)",
                  "grouping": "bare list, generator, groups with own lr, groups without lr, mixed; enumerated",
                  "outside": "float32 rounding of tensor lrs (tensor precision): tensor lr compared as reals"}
    rep.assumptions = ["oracle factor written from the property statement (independent of the library)",
                       "symbolic depth is an int subclass whose arithmetic is symbolic (has_parameter_data's isinstance check is the real one)"]
    rep.trusted = ["z3 NRA", "vf/sym/tensor.py (0-dim constant tensors, in-place *= with version counter)"]
    rep.sample({"harness": "Adam[bare,lr=tensor,...]", "obligation": "lr[0:weight/2d] = source lr * u-muP factor",
                "smt": "lr_out == lr * (1/sqrt(d1)) * (1/sqrt(depth)) for all d0,d1 in [1,4096], depth in [1,1024]"})


def replay(data: Dict[str, Any]) -> Tuple[bool, str]:
    info = data.get("info") or {}
    if "case" in info:
        return replay_errors(data["obligation"], data["model"], info)
    return oo.replay_optim(data["obligation"], data["model"], info)
