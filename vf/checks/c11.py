"""C11 - parameter groups preserved; weight decay learning-rate independent (engine S on unit_scaling.optim)."""
from __future__ import annotations

from typing import Any, Dict, List, Tuple

import torch

from ..par import run_tasks
from ..report import CONCRETE, INCONCLUSIVE, Report
from . import optimops as oo


def step_contract() -> List[Dict[str, Any]]:
    """Stub-contract validation (concrete): one real SGD / AdamW step with zero gradient multiplies p by
    (1 - lr*weight_decay) - the documented update the symbolic obligation relies on."""
    import unit_scaling as uu
    import unit_scaling.optim as uo
    bad = []
    for cls, kw in ((uo.SGD, {}), (uo.AdamW, {}), (uo.SGD, {"readout_constraint": "to_output_scale"})):
        for wd in (0.0, 0.1, 0.5):
            for lr in (1e-3, 0.5, torch.tensor(0.25)):
                ps = [uu.Parameter(torch.full((4, 16), 2.0, dtype=torch.float64), "weight"), uu.Parameter(torch.full((16,), 3.0, dtype=torch.float64), "bias", 4),
                      uu.Parameter(torch.full((5, 16), -1.0, dtype=torch.float64), "output")]
                before = [p.detach().clone() for p in ps]
                opt = cls(ps, lr=lr, weight_decay=wd, **kw)
                for k in range(1, 4):
                    for p in ps:
                        p.grad = torch.zeros_like(p)
                    opt.step()
                    for p, b in zip(ps, before):
                        if not torch.allclose(p.detach(), b * (1 - wd) ** k, rtol=1e-6, atol=0):
                            bad.append((cls.__name__, wd, float(lr), k, p.detach().flatten()[0].item(), (b * (1 - wd) ** k).flatten()[0].item()))
    if bad:
        return [{"type": "violation", "key": "C11/step-contract/zero-gradient-step", "what": f"zero-gradient step does not multiply parameters by (1 - weight_decay): {bad[:3]}",
                 "replay": {"kind": "step"}}]
    return [{"type": "obligation", "name": "step-contract/zero-gradient SGD and AdamW steps", "status": CONCRETE, "queries": 0, "kind": "contract-validation",
             "detail": "real optimizers, 1-3 steps, wd in {0,0.1,0.5}, float and tensor lr: p_k = p_0 (1-wd)^k"}]


def run(rep: Report, only: str = "") -> None:
    timeout = 120 if rep.tier == "thorough" else 40
    tasks: List[Any] = [(oo.run_config, ("C11", cfg, ["C11"], timeout)) for cfg in oo.configs(rep.tier)]
    tasks.append((step_contract, ()))
    if only:
        tasks = [t for t in tasks if only in repr(t[1])]
    rep.extend(run_tasks(tasks))
    rep.functions = oo.encoded_functions()
    rep.bounds = {"groups": "bare list / generator / 2 groups with own lr + extra keys / 2 groups without lr / mixed; 1-3 parameters of enumerated (rank, tag, depth) each",
                  "numbers": "lr in [1e-8,1e2] (float or 0-dim tensor), weight_decay in [0,0.5], all symbolic",
                  "step": "SGD p <- p - lr(g + wd p), AdamW p <- p(1 - lr wd) - ... are stub contracts validated on every run against real 1-3 zero-gradient steps",
                  "outside": "group lists longer than 2 groups / 3 parameters (structure is enumerated, numbers are symbolic)"}
    rep.assumptions = ["lr > 0 as the property states", "object identity (is) of option values and lr tensors is observed on the symbolic objects exactly as on real ones"]
    rep.trusted = ["z3 NRA", "vf/sym/tensor.py version counters for in-place writes to the caller's lr tensor"]
    rep.sample({"harness": "scaled_adam[groups_own_lr,lr=tensor,iwd=True,...]", "obligation": "wd[1]: lr * weight_decay = requested decay"})


def replay(data: Dict[str, Any]) -> Tuple[bool, str]:
    if data.get("kind") == "step":
        r = step_contract()
        v = [x for x in r if x.get("type") == "violation"]
        return bool(v), str(v or "ok")
    return oo.replay_optim(data["obligation"], data["model"], data.get("info") or {})
