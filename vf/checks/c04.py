"""C04 (partial) - nonlinear ops near unit scale: what an SMT solver can decide.

* gelu (exact, tanh), silu, silu_glu for EVERY mult in [1/16, 16]: the real functions run with a symbolic mult; their
  factors come out as exp(alpha(m) log U + (1 - alpha(m)) log L).  On each cell of a 512-cell log grid z3 proves
      0.93 <= factor(m) * sigma(m) <= 1.07      for every m in the cell,
  using only monotonicity of exp, rational enclosures of the logs of the constants, and an enclosure [lo, hi] of the
  std / RMS sigma(m) of the UNSCALED PyTorch function under N(0,1) over the cell (Gauss-Hermite quadrature: the oracle,
  independent of the repo).
* cross_entropy: the logit-gradient factor squared times the exact uniform-logit mean square (V-1)/V^2 is 1 for all V.
Not decidable by this technique (outside the claim): softmax / attention bands, the non-uniform cross-entropy band, the
norm +-10 % clause (Monte-Carlo expectations of multi-dimensional transcendental functions)."""
from __future__ import annotations

import math
from fractions import Fraction
from typing import Any, Callable, Dict, List, Optional, Tuple

import numpy as np
import torch
import torch.nn.functional as F
import z3

from ..par import run_tasks
from ..report import CONCRETE, CONTROL, INCONCLUSIVE, PROVED, Report, describe_function, lazy
from ..sym.scalar import EXP, LOG, Ctx, explore
from ..sym.tensor import Session, STensor
from . import funcops as fo

LO, HI = 0.93, 1.07
NCELLS = 512
# expectation under N(0,1): composite Simpson rule on [-12, 12] with 120001 nodes (resolves the 1/mult-wide transition
# of the steepest function, mult = 16, with ~300 nodes; Gauss-Hermite with few nodes is 2 % off there)
_N = 120001
GH_X = np.linspace(-12.0, 12.0, _N)
_w = np.ones(_N)
_w[1:-1:2], _w[2:-1:2] = 4.0, 2.0
GH_W = _w * np.exp(-GH_X * GH_X / 2)
GH_W = GH_W / GH_W.sum()

OPS = [("gelu", "none"), ("gelu", "tanh"), ("silu", "none"), ("silu_glu", "none")]


# ------------------------------------------------------------------------------------------ oracle: sigma(m) by quadrature
def _sig(z: np.ndarray) -> np.ndarray:
    return 1 / (1 + np.exp(-z))


def _gelu(z: np.ndarray, approx: str) -> Tuple[np.ndarray, np.ndarray]:
    """value and derivative"""
    if approx == "none":
        erf = torch.erf(torch.from_numpy(np.ascontiguousarray(z / math.sqrt(2)))).numpy()  # float64 erf
        cdf = 0.5 * (1 + erf)
        pdf = np.exp(-z * z / 2) / math.sqrt(2 * math.pi)
        return z * cdf, cdf + z * pdf
    k = math.sqrt(2 / math.pi)
    u = k * (z + 0.044715 * z ** 3)
    t = np.tanh(u)
    du = k * (1 + 3 * 0.044715 * z * z)
    return 0.5 * z * (1 + t), 0.5 * (1 + t) + 0.5 * z * (1 - t * t) * du


def sigma(op: str, approx: str, which: str, m: float) -> float:
    """std (which='out') or RMS of the input gradient (which='x'/'gate') of the unscaled PyTorch function under N(0,1)"""
    x = GH_X
    if op == "gelu":
        f, df = _gelu(m * x, approx)
        f, df = f / m, df  # d/dx [gelu(m x)/m] = gelu'(m x)
    else:
        s = _sig(m * x)
        f, df = x * s, s + m * x * s * (1 - s)  # silu with temperature m, as the library spells it: x*sigmoid(m x)
    E = lambda v: float(np.sum(GH_W * v))
    if op == "silu_glu":
        # out = x1 * s(g): mean 0, E[out^2] = E[s^2];  d/dx1 = s(g);  d/dg = x1 * s'(g)
        return math.sqrt(E(f * f)) if which in ("out", "x") else math.sqrt(E(df * df))
    if which == "out":
        return math.sqrt(max(E(f * f) - E(f) ** 2, 0.0))
    return math.sqrt(E(df * df))


def enclosure(op: str, approx: str, which: str, a: float, b: float) -> Tuple[float, float]:
    vals = [sigma(op, approx, which, v) for v in (a, math.sqrt(a * b), b)]
    return min(vals) * (1 - 2e-3), max(vals) * (1 + 2e-3)


def _rat(x: float, up: bool) -> Any:
    """rational bound of a float quantity known to ~1e-15: widened by 1e-12 in the safe direction"""
    f = Fraction(x) + (Fraction(1, 10 ** 12) if up else -Fraction(1, 10 ** 12))
    return z3.Q(f.numerator, f.denominator)


# ------------------------------------------------------------------------------------------ symbolic factors of the real functions
def factors(op: str, approx: str) -> List[Dict[str, Any]]:
    """one entry per path (mult == 1 / mult != 1): ctx, factor z3 terms {which: k}"""
    out: List[Dict[str, Any]] = []

    def h(c: Ctx) -> Any:
        import unit_scaling.functional as U
        mk = fo.SymMk(c)
        with Session():
            m = c.real("mult", Fraction(1, 16), 16)
            n = c.dim("n", sample=4)
            x = STensor.leaf("x", (n,), torch.float32, requires_grad=True)
            if op == "gelu":
                y, ref, leaves = U.gelu(x, mult=m, constraint=None, approximate=approx), F.gelu(x * m, approximate=approx) / m, {"x": x}
            elif op == "silu":
                y, ref, leaves = U.silu(x, mult=m, constraint=None), F.silu(x * m) / m, {"x": x}
            else:
                g = STensor.leaf("gate", (n,), torch.float32, requires_grad=True)
                y, ref, leaves = U.silu_glu(x, g, mult=m), x * (F.silu(g * m) / m), {"x": x, "gate": g}
            ks: Dict[str, Any] = {}
            k, mism, pairs = fo._ratio(c, "out", y.lc, ref.lc)
            if mism:
                raise RuntimeError(mism)
            ks["out"] = k
            c.assumes += [fo._eq_claim(pairs)]  # established by C01
            G = STensor.leaf("G", y.shape, y.dtype)
            y.backward(G)
            gl = {n_: t.grad for n_, t in leaves.items()}
            for t in leaves.values():
                t.grad = None
            ref.backward(G)
            for n_, t in leaves.items():
                ka, gm, gp = fo._ratio(c, n_, gl[n_], t.grad)
                if gm:
                    raise RuntimeError(gm)
                ks[n_] = ka
                c.assumes += [fo._eq_claim(gp)]  # established by C02
            return ks

    for c, res, exc in explore(h):
        if exc is not None:
            raise exc
        out.append({"ctx": c, "ks": res})
    return out


def cell_task(op: str, approx: str, lo_cell: int, hi_cell: int, timeout: float, ncells: int = NCELLS) -> List[Dict[str, Any]]:
    torch.set_num_threads(1)
    NCELLS = ncells
    recs: List[Dict[str, Any]] = [{"type": "function", "functions": []}]
    edges = [2 ** (-4 + 8 * i / NCELLS) for i in range(NCELLS + 1)]
    try:
        paths = factors(op, approx)
    except RuntimeError as e:
        # the library's kernel does not unify with the PyTorch function (that identity is C01's claim): no symbolic factor to bound.
        # The band is then decided on the real code at both ends and the middle of every cell: outside = violation, inside = only sampled.
        whichs = ["out", "x"] + (["gate"] if op == "silu_glu" else [])
        for which in whichs:
            for i in range(lo_cell, hi_cell):
                a, b = edges[i], edges[i + 1]
                name = f"{op}[{approx}]/{which}/cell{i}[{a:.5g},{b:.5g}]"
                worst = None
                for mm in (a, (a * b) ** 0.5, b):
                    bad, desc = direct_band(op, approx, which, mm)
                    if bad:
                        worst = (mm, desc)
                        break
                if worst is not None:
                    recs.append({"type": "violation", "key": f"C04/{op}[{approx}]/{which}/band", "what": worst[1],
                                 "replay": {"kind": "direct-band", "op": op, "approx": approx, "which": which, "mult": worst[0]}})
                else:
                    recs.append({"type": "obligation", "name": name, "status": INCONCLUSIVE, "secs": 0.0,
                                 "detail": f"kernel does not unify with the PyTorch function ({str(e)[:160]}); band measured inside at 3 points of the cell only"})
        return recs
    for pi, p in enumerate(paths):
        c: Ctx = p["ctx"]
        mvar = c.reals["mult"]
        base = c.background() + c.path
        # axioms about the concrete constants: log enclosures
        log_ax = []
        for a in c.log_args:
            a_s = z3.simplify(a)
            if z3.is_rational_value(a_s):
                v = math.log(float(a_s.as_fraction()))
                log_ax += [LOG(a) >= _rat(v, False), LOG(a) <= _rat(v, True)]
        for which, k in p["ks"].items():
            for i in range(lo_cell, hi_cell):
                a, b = edges[i], edges[i + 1]
                s_lo, s_hi = enclosure(op, approx, which, a, b)
                lower, upper = LO / s_lo, HI / s_hi  # need lower <= k <= upper
                name = f"{op}[{approx}]/{which}/cell{i}[{a:.5g},{b:.5g}]" + (f"/p{pi}" if len(paths) > 1 else "")
                cell = [mvar >= _rat(a, False), mvar <= _rat(b, True)]
                s = z3.Solver()
                s.set("timeout", int(timeout * 1000))
                s.add(*base, *log_ax, *cell)
                if str(s.check()) == "unsat":
                    continue  # this path (mult == 1) does not meet the cell
                # monotonicity instances of exp at the two rational thresholds (true facts about exp)
                # sound instances of "exp is increasing": exp(Lb) >= lower and exp(Ub) <= upper hold with a 1e-9 relative margin
                lower_c, upper_c = z3.Q(*Fraction(lower).as_integer_ratio()), z3.Q(*Fraction(upper).as_integer_ratio())
                Lb = z3.Q(*Fraction(math.log(lower) + 1e-9).as_integer_ratio())
                Ub = z3.Q(*Fraction(math.log(upper) - 1e-9).as_integer_ratio())
                mono = []
                for t in c.exp_args:
                    mono += [z3.Implies(t >= Lb, EXP(t) >= lower_c), z3.Implies(t <= Ub, EXP(t) <= upper_c)]
                claim = z3.And(k >= lower_c, k <= upper_c)
                s.add(*mono, z3.Not(claim))
                import time as _t
                t0 = _t.time()
                r = str(s.check())
                dt = _t.time() - t0
                if r == "unsat":
                    recs.append({"type": "obligation", "name": name, "status": PROVED, "secs": dt,
                                 "detail": {"sigma_enclosure": [s_lo, s_hi], "factor_must_lie_in": [lower, upper]}})
                elif r == "sat":
                    mv = s.model().eval(mvar, model_completion=True)
                    mm = float(mv.as_fraction()) if z3.is_rational_value(mv) else float(mv.approx(20).as_fraction())
                    bad, desc = replay_band(op, approx, which, mm)
                    if bad:
                        recs.append({"type": "violation", "key": f"C04/{op}[{approx}]/{which}/band", "what": desc,
                                     "replay": {"kind": "band", "op": op, "approx": approx, "which": which, "mult": mm}})
                    else:
                        recs.append({"type": "obligation", "name": name, "status": INCONCLUSIVE, "secs": dt,
                                     "detail": f"cell not proved (sufficient condition failed at mult={mm}) but the measured product is inside the band: {desc}"})
                else:
                    recs.append({"type": "obligation", "name": name, "status": INCONCLUSIVE, "secs": dt, "detail": f"solver {r}"})
    return recs


def measured_factor(op: str, approx: str, which: str, m: float) -> float:
    import unit_scaling.functional as U
    torch.manual_seed(0)
    x = torch.randn(257, dtype=torch.float64, requires_grad=True)
    g = torch.randn(257, dtype=torch.float64, requires_grad=True)
    if op == "gelu":
        y, ref = U.gelu(x, mult=m, constraint=None, approximate=approx), F.gelu(x * m, approximate=approx) / m
    elif op == "silu":
        y, ref = U.silu(x, mult=m, constraint=None), F.silu(x * m) / m
    else:
        y, ref = U.silu_glu(x, g, mult=m), x * (F.silu(g * m) / m)
    if which == "out":
        return fo._ratio_c(y, ref)[0]
    t = x if which == "x" else g
    up = torch.randn(257, dtype=torch.float64)
    (a,) = torch.autograd.grad(y, t, up, retain_graph=True)
    (b,) = torch.autograd.grad(ref, t, up)
    return fo._ratio_c(a, b)[0]


def direct_band(op: str, approx: str, which: str, m: float) -> Tuple[bool, str]:
    """The property itself, measured on the real function with no reference kernel: output std / input-gradient RMS under N(0,1) inputs and
    upstream gradients, by a 40001-node Simpson rule on [-12, 12] in float64 (deterministic)."""
    import unit_scaling.functional as U
    n = 40001
    z = torch.linspace(-12.0, 12.0, n, dtype=torch.float64)
    h = (z[1] - z[0]).item()
    w = torch.ones(n, dtype=torch.float64)
    w[1:-1:2], w[2:-1:2] = 4.0, 2.0
    w = w * h / 3.0 * torch.exp(-0.5 * z * z) / math.sqrt(2 * math.pi)
    zz = z.clone().requires_grad_(True)
    if op == "gelu":
        y = U.gelu(zz, mult=m, constraint=None, approximate=approx)
    elif op == "silu":
        y = U.silu(zz, mult=m, constraint=None)
    else:
        one = torch.ones(n, dtype=torch.float64, requires_grad=True)
        y = U.silu_glu(one, zz, mult=m)  # linear in its first operand: with x ~ N(0,1) independent, E[x^2] = 1 factors out
    (dy,) = torch.autograd.grad(y, zz, torch.ones_like(y))
    yd = y.detach()
    if which == "out":
        v = math.sqrt(float((w * yd * yd).sum())) if op == "silu_glu" else math.sqrt(max(float((w * yd * yd).sum()) - float((w * yd).sum()) ** 2, 0.0))
        what = "output std"
    elif which == "x" and op == "silu_glu":
        v, what = math.sqrt(float((w * yd * yd).sum())), "grad[x] RMS"
    else:
        v, what = math.sqrt(float((w * dy * dy).sum())), f"grad[{which}] RMS"
    return not (LO <= v <= HI), f"{op}(approximate={approx}) mult={m!r}: {what} measured directly on the real function = {v!r} (band [{LO}, {HI}])"


def replay_band(op: str, approx: str, which: str, m: float) -> Tuple[bool, str]:
    k = measured_factor(op, approx, which, m)
    s = sigma(op, approx, which, m)
    v = k * s
    return not (LO <= v <= HI), f"{op}(approximate={approx}) mult={m!r}: {'output std' if which == 'out' else 'grad[' + which + '] RMS'} = factor {k!r} x sigma {s!r} = {v!r} (band [{LO}, {HI}])"


def task_control() -> List[Dict[str, Any]]:
    """negative control: with the band tightened to +-0.5 % some cell must fail (the encoding is not vacuous)"""
    global LO, HI
    old = (LO, HI)
    LO, HI = 0.995, 1.005
    try:
        recs = cell_task("gelu", "none", 200, 210, 20, 512)
    finally:
        LO, HI = old
    failed = [r for r in recs if r.get("type") == "violation" or (r.get("type") == "obligation" and r["status"] != PROVED)]
    if failed:
        return [{"type": "obligation", "name": "control: +-0.5 % band is refuted on some cell (must be)", "status": CONTROL, "queries": 10, "detail": str(failed[0])[:300]}]
    return [{"type": "obligation", "name": "control: +-0.5 % band", "status": INCONCLUSIVE, "queries": 10, "detail": "tightened band proved: encoding vacuous?"}]


def task_oracle_validation() -> List[Dict[str, Any]]:
    """the quadrature oracle against a 2^22-sample Monte-Carlo run of the real torch functions (contract validation)"""
    torch.manual_seed(0)
    x = torch.randn(2 ** 21, dtype=torch.float64, requires_grad=True)
    bad = []
    for op, ap in (("gelu", "none"), ("gelu", "tanh"), ("silu", "none")):
        for m in (1 / 16, 0.5, 1.0, 3.0, 16.0):
            y = (F.gelu(x * m, approximate=ap) if op == "gelu" else F.silu(x * m)) / m
            (gx,) = torch.autograd.grad(y.sum(), x)
            for which, emp in (("out", y.std().item()), ("x", gx.pow(2).mean().sqrt().item())):
                s = sigma(op, ap, which, m)
                if abs(s - emp) > 5e-3 * max(s, 1e-9):
                    bad.append((op, ap, which, m, s, emp))
    if bad:
        return [{"type": "obligation", "name": "oracle-validation", "status": INCONCLUSIVE, "queries": 0, "detail": f"quadrature disagrees with Monte-Carlo: {bad[:3]}"}]
    return [{"type": "obligation", "name": "oracle-validation: Gauss-Hermite sigma(m) vs 2^21-sample Monte-Carlo on real torch functions", "status": CONCRETE, "queries": 0,
             "kind": "contract-validation", "detail": "agreement within 0.5 % at mult in {1/16, 0.5, 1, 3, 16}"}]


# ------------------------------------------------------------------------------------------ exact uniform-logit clause
def task_uniform_ce() -> List[Dict[str, Any]]:
    from ..sym.runner import discharge

    def h(c: Ctx) -> None:
        import unit_scaling.functional as U
        with Session():
            V = c.dim("vocab", 2, 2 ** 20, sample=5)
            B = c.dim("batch", 1, 2 ** 20, sample=3)
            m = c.real("mult", 0, 4, lo_strict=True)
            x = STensor.leaf("x", (B, V), torch.float32, requires_grad=True)
            t = STensor.leaf("t", (B,), torch.int64)
            y = U.cross_entropy(x, t, mult=m)
            G = STensor.leaf("G", y.shape, y.dtype)
            y.backward(G)
            gl = x.grad
            x.grad = None
            ref = F.cross_entropy(m * x, t, reduction="sum")
            ref.backward(G)
            ka, gm, gp = fo._ratio(c, "x", gl, x.grad)
            if gm:
                raise RuntimeError(gm)
            c.assumes.append(fo._eq_claim(gp))
            # d/dx_i of sum-CE(m x) for uniform logits = m (1/V - [i = target]): mean square m^2 (V-1)/V^2; unit upstream gradient
            Vz = c.dims["vocab"]
            # reference gradient w.r.t. x is m * dCE/dz (z = m x); the library's is ka * that.  For uniform logits dCE/dz has
            # mean square (V-1)/V^2, so the logit-gradient RMS of the library is exactly 1 iff (ka*m)^2 (V-1) = V^2
            mz = c.reals["mult"]
            c.oblige("uniform logits: logit-gradient RMS exactly 1", (ka * mz) * (ka * mz) * (Vz - 1) == Vz * Vz, info={"claim": "uniform"})
            c.oblige("control: factor sqrt(V) would also do (must be sat)", (ka * mz) * (ka * mz) == Vz, kind="control")

    def rp(ob: str, model: Dict[str, Any], info: Any) -> Tuple[bool, str]:
        import unit_scaling.functional as U
        V, B = int(model.get("vocab", 5)), min(int(model.get("batch", 3)), 64)
        x = torch.zeros(B, V, dtype=torch.float64, requires_grad=True)
        t = torch.randint(0, V, (B,))
        mult = float(model.get("mult", 1.0))
        U.cross_entropy(x, t, reduction="sum", mult=mult).backward()
        rms = x.grad.pow(2).mean().sqrt().item()
        return abs(rms - 1) > 1e-9, f"uniform logits, vocab={V}, mult={mult!r}: logit-gradient RMS = {rms!r}"

    return discharge("C04", "cross_entropy/uniform-logits", h, rp, 30, skip_definedness=True)


def run(rep: Report, only: str = "") -> None:
    import unit_scaling.core.functional as ucf
    import unit_scaling.functional as U
    thorough = rep.tier == "thorough"
    timeout = 60 if thorough else 20
    tasks: List[Any] = []
    ncells = 2048 if thorough else NCELLS  # thorough: four times finer cells (tighter sigma enclosures)
    chunk = ncells // 16
    for op, ap in OPS:
        for lo in range(0, ncells, chunk):
            tasks.append((cell_task, (op, ap, lo, lo + chunk, timeout, ncells)))
    tasks += [(task_control, ()), (task_oracle_validation, ()), (task_uniform_ce, ())]
    if only:
        tasks = [t for t in tasks if only in repr(t[1]) or only in t[0].__name__]
    rep.extend(run_tasks(tasks))
    rep.functions = [describe_function(f) for f in (lazy(lambda: U.gelu), lazy(lambda: U.silu), lazy(lambda: U.silu_glu), lazy(lambda: U.cross_entropy), lazy(lambda: ucf.logarithmic_interpolation), lazy(lambda: ucf.scale_elementwise))]
    rep.bounds = {"mult": f"every real mult in [1/16, 16]: {ncells} cells of a log grid, each decided for all mult in the cell",
                  "quantities": "gelu (exact, tanh), silu: output std and input-gradient RMS; silu_glu: output std and both input-gradient RMS",
                  "uniform logits": "vocabulary 2..2^20, batch 1..2^20, mult in (0,4]",
                  "outside": "softmax, attention, non-uniform cross-entropy band [0.95,1.45], layer/RMS-norm +-10 %: Monte-Carlo expectations without a closed form - NOT checked; "
                             "a regression in those scale models is not detected by this check"}
    rep.assumptions = ["sigma(m) enclosure per cell from a 120001-node composite Simpson rule for the N(0,1) expectation at the cell ends and midpoint, widened by 0.2 % (numerically, not formally, certified; "
                       "validated against Monte-Carlo on the real torch functions each run)",
                       "exp is increasing and log its inverse; logs of the source's constants replaced by rational enclosures (+-1e-12)",
                       "forward/gradient factor = coefficient ratio established by the C01/C02 unification (assumed here)"]
    rep.trusted = ["z3 (UF + NRA)", "numpy/scipy quadrature"]
    rep.sample({"obligation": "gelu[none]/out/cell256[1,1.0109]", "smt": "forall m in cell: 0.93/sigma_lo <= Exp(alpha(m) l_U + (1-alpha(m)) l_L) <= 1.07/sigma_hi"})


def replay(data: Dict[str, Any]) -> Tuple[bool, str]:
    if data.get("kind") == "direct-band":
        return direct_band(data["op"], data["approx"], data["which"], float(data["mult"]))
    if data.get("kind") == "band":
        return replay_band(data["op"], data["approx"], data["which"], float(data["mult"]))
    r = task_uniform_ce()
    v = [x for x in r if x.get("type") == "violation"]
    return bool(v), str([x["what"] for x in v] or "ok")
