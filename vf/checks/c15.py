"""C15 - format simulation = straight-through quantisation exactly at matmul boundaries.

(a) quantise_fwd / quantise_bwd: the real autograd.Functions run on symbolic tensors with FPFormat.quantise an opaque op
    labelled with the COMPLETE format; lossless E8M23: bit-vector proof over every float32 (engine B).
(b,c) translation validation: the real simulate_format() runs through TorchDynamo on real inputs; the captured original
    graph under the hand-written reference  bwdQ(op(fwdQ(a), fwdQ(b), bias, **kwargs))  with the caller's formats is unified -
    output and all gradients, for all data and dims - with the graph the library's backend produced."""
from __future__ import annotations

from typing import Any, Dict, List, Optional, Tuple

import torch
import torch.nn.functional as F
import z3

from ..fpbits.claims import _task as bits_task
from ..fxsym import interp as ix
from ..fxsym.capture import capture
from ..fxsym.programs import build, qprograms, root_specs, spec_name
from ..par import run_tasks
from ..report import CONCRETE, INCONCLUSIVE, Report, describe_function, lazy
from ..sym.runner import discharge
from ..sym.scalar import Ctx
from ..sym.tensor import LC, ONE, HarnessError, Mode, Node, Session, STensor, Term, opaque
from . import funcops as fo
from .c06 import _eq_lc
from .c16 import _plain, _unplain

FORMATS = {
    "fp8": ((4, 3, "stochastic", 0), (5, 2, "stochastic", 0)),
    "fp8-nearest": ((4, 3, "nearest", 0), (5, 2, "nearest", 0)),
    "lossless": ((8, 23, "nearest", 0), (8, 23, "nearest", 0)),
    "mixed": ((3, 2, "stochastic", 4), (5, 2, "nearest", 0)),
    "us+mixed": ((3, 2, "stochastic", 4), (5, 2, "nearest", 0)),
}


def mkfmt(t: Tuple[int, int, str, int]) -> Any:
    from unit_scaling.formats import FPFormat
    return FPFormat(t[0], t[1], t[2], t[3])


def fmt_label(f: Any) -> Tuple[int, int, str, int]:
    return (f.exponent_bits, f.mantissa_bits, f.rounding, f.srbits)


class QuantSession:
    """FPFormat.quantise on a symbolic tensor = an opaque, non-differentiable op labelled with the complete format
    (value set, rounding mode, random-bit count).  Real tensors go to the real method."""

    def __enter__(self) -> "QuantSession":
        from unit_scaling.formats import FPFormat
        self.cls = FPFormat
        self.orig = FPFormat.quantise

        def quantise(fmt: Any, x: Any) -> Any:
            if isinstance(x, STensor):
                return opaque("Q", [x], {"format": fmt_label(fmt), "rng": "pinned"}, x.shape, x.meta)
            return self.orig(fmt, x)

        FPFormat.quantise = quantise  # type: ignore[method-assign]
        return self

    def __exit__(self, *a: Any) -> None:
        self.cls.quantise = self.orig  # type: ignore[method-assign]


def q_term(t: STensor, label: Tuple[int, int, str, int]) -> LC:
    return LC(((ONE, Term("Q", (t.lc,), (("format", label), ("rng", "pinned")))),))


def ref_fwdQ(t: Any, label: Tuple[int, int, str, int]) -> Any:
    """reference straight-through estimator: value Q(t), gradient passed through unchanged"""
    if not isinstance(t, STensor):
        return mkfmt(label).quantise_fwd(t) if isinstance(t, torch.Tensor) else t
    node = Node([t], lambda g: [g], "ref_fwdQ") if (Mode.grad and t.requires_grad) else None
    return STensor(q_term(t, label), t.shape, t.meta, node=node)


def ref_bwdQ(t: Any, label: Tuple[int, int, str, int]) -> Any:
    """reference: value unchanged, gradient quantised"""
    if not isinstance(t, STensor):
        return mkfmt(label).quantise_bwd(t)
    def vjp(g: LC) -> List[Optional[LC]]:
        gt = STensor(g, t.shape, t.meta)
        return [q_term(gt, label)]
    node = Node([t], vjp, "ref_bwdQ") if (Mode.grad and t.requires_grad) else None
    return STensor(t.lc, t.shape, t.meta, node=node)


# ---------------------------------------------------------------------------------------------- (a) estimators
def h_ste(which: str, fkey: str, rank: int):
    def h(c: Ctx) -> None:
        label = FORMATS[fkey][0]
        fmt = mkfmt(label)
        mk = fo.SymMk(c)
        info = {"which": which, "format": fkey, "rank": rank}
        with Session(), QuantSession():
            x = mk.tensor("x", fo._lead(mk, rank), torch.float32)
            y = getattr(fmt, which)(x)
            G = STensor.leaf("G", y.shape, y.dtype)
            y.backward(G)
            if which == "quantise_fwd":
                _eq_lc(c, "forward value = Q_fmt(x)", y.lc, q_term(x, fmt_label(fmt)), {**info, "claim": "ste"})
                _eq_lc(c, "gradient passes through unchanged", x.grad, G.lc, {**info, "claim": "ste"})
            else:
                _eq_lc(c, "forward value = x unchanged", y.lc, x.lc, {**info, "claim": "ste"})
                _eq_lc(c, "gradient = Q_fmt(upstream)", x.grad, q_term(G, fmt_label(fmt)), {**info, "claim": "ste"})
            c.oblige("x not modified", z3.BoolVal(x.version == 0), info={**info, "claim": "ste"})

    return h


SEQ = [(4, 3, "stochastic", 0), (4, 3, "stochastic", 1), (4, 3, "nearest", 0), (4, 3, "stochastic", 0), (5, 2, "stochastic", 2), (4, 3, "stochastic", 1)]


def h_ste_sequence(which: str):
    """several formats sharing exponent/mantissa bits but differing in rounding mode / random-bit count, used one after
    the other in one process: each call must use ITS format (no state carried between formats)"""

    def h(c: Ctx) -> None:
        mk = fo.SymMk(c)
        info = {"which": which, "sequence": True}
        with Session(), QuantSession():
            x = mk.tensor("x", fo._lead(mk, 2), torch.float32)
            for i, label in enumerate(SEQ):
                fmt = mkfmt(label)
                x.grad = None
                y = getattr(fmt, which)(x)
                G = STensor.leaf("G", y.shape, y.dtype)
                y.backward(G)
                if which == "quantise_fwd":
                    _eq_lc(c, f"call {i} {label}: forward value = Q of THIS format", y.lc, q_term(x, fmt_label(fmt)), {**info, "claim": "seq", "index": i})
                    _eq_lc(c, f"call {i} {label}: gradient passes through", x.grad, G.lc, {**info, "claim": "seq", "index": i})
                else:
                    _eq_lc(c, f"call {i} {label}: forward value = x", y.lc, x.lc, {**info, "claim": "seq", "index": i})
                    _eq_lc(c, f"call {i} {label}: gradient = Q of THIS format", x.grad, q_term(G, fmt_label(fmt)), {**info, "claim": "seq", "index": i})

    return h


def replay_ste_sequence(obname: str, model: Dict[str, Any], info: Any) -> Tuple[bool, str]:
    """concrete: pin the random source; after the sequence each format must behave as it does in a fresh state"""
    which = info["which"]
    orig = torch.randint
    seen: List[Tuple[int, int]] = []

    def rec(low: Any, high: Any, *a: Any, **k: Any) -> torch.Tensor:
        seen.append((low, high))
        return orig(low, high, *a, **k)

    bad = []
    x = torch.randn(64, requires_grad=True)
    torch.randint = rec  # type: ignore[assignment]
    try:
        for i, label in enumerate(SEQ):
            fmt = mkfmt(label)
            seen.clear()
            y = getattr(fmt, which)(x)
            (gx,) = torch.autograd.grad(y, x, torch.randn(64))
            want = [] if label[2] == "nearest" else [(0, 2 ** fmt.srbits)]
            if seen != want:
                bad.append(f"call {i} with {label}: random draws {seen}, its own format needs {want}")
    finally:
        torch.randint = orig  # type: ignore[assignment]
    return bool(bad), f"{which} sequence: " + "; ".join(bad or ["each call used its own format"])


def task_ste_sequence(which: str) -> List[Dict[str, Any]]:
    torch.set_num_threads(1)
    return discharge("C15", f"{which}[sequence of formats]", h_ste_sequence(which), replay_ste_sequence, 20, base_info={"which": which, "sequence": True})


def _spread(t: torch.Tensor, infinities: bool = False) -> torch.Tensor:
    """replay data over the whole dynamic range, cyclically: ordinary / saturating / tiny / beyond every format's maximum / so far beyond
    it that float32 absorbs the format's spacing (>= 2^24 x the top spacing: 1e9 for the 8-bit formats, 1e15 for E5M2 and wider) and,
    for the element-wise estimator harness, +-infinity"""
    if not t.is_floating_point() or t.numel() == 0:
        return t
    vals = [1.0, 300.0, 1e-3, 1e4, 1e9, 1e15] + ([float("inf"), float("-inf")] if infinities else [])
    pat = torch.tensor(vals, dtype=t.dtype)[torch.arange(t.numel()) % len(vals)].reshape(t.shape)
    return t.abs().clamp_min(0.25) * t.sign() * pat if infinities else t * pat


def replay_ste(obname: str, model: Dict[str, Any], info: Any) -> Tuple[bool, str]:
    label = FORMATS[info["format"]][0]
    fmt = mkfmt((label[0], label[1], "nearest", 0))  # deterministic for the replay
    x = _spread(torch.randn(4, 8), infinities=True).requires_grad_(True)
    x0 = x.detach().clone()
    y = getattr(fmt, info["which"])(x)
    g = _spread(torch.randn(4, 8))
    (gx,) = torch.autograd.grad(y, x, g)
    if info["which"] == "quantise_fwd":
        ok = torch.equal(y.detach(), fmt.quantise(x0)) and torch.equal(gx, g)
    else:
        ok = torch.equal(y.detach(), x0) and torch.equal(gx, fmt.quantise(g))
    return (not ok) or not torch.equal(x.detach(), x0), f"{info['which']} with {fmt}: straight-through behaviour {'ok' if ok else 'violated'}"


def task_ste(which: str, fkey: str, rank: int) -> List[Dict[str, Any]]:
    torch.set_num_threads(1)
    return discharge("C15", f"{which}[{fkey},rank={rank}]", h_ste(which, fkey, rank), replay_ste, 20, base_info={"which": which, "format": fkey, "rank": rank})


def arguments_untouched(fkey: str) -> Tuple[bool, str]:
    """'nothing else changed': quantise / quantise_fwd / quantise_bwd never write into a tensor they are given - not a plain data tensor
    (no gradient, contiguous float32, values beyond the format's range) that has other consumers, and not the gradient buffer handed to backward"""
    label = FORMATS[fkey][0]
    fmt = mkfmt((label[0], label[1], "nearest", 0))
    bad = []
    torch.manual_seed(5)
    for which in ("quantise", "quantise_fwd", "quantise_bwd"):
        for contiguous in (True, False):
            x = _spread(torch.randn(4, 8))
            if not contiguous:
                x = _spread(torch.randn(8, 4)).t()
            x0 = x.clone()
            y = getattr(fmt, which)(x)
            if not torch.equal(torch.nan_to_num(x, nan=7.25), torch.nan_to_num(x0, nan=7.25)):
                bad.append(f"{which} overwrote its {'contiguous' if contiguous else 'transposed'} plain argument")
            if y.data_ptr() == x.data_ptr() and which != "quantise_bwd" and not torch.equal(torch.nan_to_num(fmt.quantise(x0), nan=7.25), torch.nan_to_num(x0, nan=7.25)):
                bad.append(f"{which} returned its argument's own storage although values changed")
    xg = torch.randn(4, 8, requires_grad=True)
    g = _spread(torch.randn(4, 8))
    g0 = g.clone()
    fmt.quantise_bwd(xg).backward(g)
    if not torch.equal(g, g0):
        bad.append("quantise_bwd's backward overwrote the upstream gradient buffer (other consumers of that gradient would see it quantised)")
    return bool(bad), f"{fmt}: " + "; ".join(bad or ["arguments and gradient buffers untouched"])


def task_arguments_untouched(fkey: str) -> List[Dict[str, Any]]:
    torch.set_num_threads(1)
    name = f"arguments untouched[{fkey}]"
    try:
        b, desc = arguments_untouched(fkey)
    except Exception as e:
        return [{"type": "obligation", "name": name, "status": INCONCLUSIVE, "queries": 0, "detail": f"{type(e).__name__}: {str(e)[:300]}"}]
    if b:
        return [{"type": "violation", "key": f"C15/{name}", "what": desc, "replay": {"kind": "untouched", "format": fkey}}]
    return [{"type": "obligation", "name": name, "status": CONCRETE, "queries": 0, "kind": "concrete", "detail": desc}]


# ---------------------------------------------------------------------------------------------- (c) whole graphs
def _transform(fkey: str):
    from unit_scaling.transforms import simulate_format, simulate_fp8, unit_scale
    if fkey == "fp8":
        return simulate_fp8
    if fkey.startswith("us+"):  # unit_scale first: the quantisation backend then meets U.linear / U.scaled_dot_product_attention nodes
        f, b = FORMATS[fkey]
        return lambda m: simulate_format(unit_scale(m), mkfmt(f), mkfmt(b))
    f, b = FORMATS[fkey]
    return lambda m: simulate_format(m, mkfmt(f), mkfmt(b))


def _quant_stage(cap: Any) -> Any:
    """the graph the quantisation backend received (= Dynamo's graph, or the unit-scaled graph in a composition)"""
    for qn, gm in cap.stages:
        if "quantisation_backend" in qn:
            return gm
    return cap.original


def run_quant_reference(gm: Any, leaves: Dict[str, Any], fkey: str) -> Any:
    """original graph with every linear / attention (plain or unit-scaled) wrapped as bwdQ(op(fwdQ(tensor operands), rest))"""
    import unit_scaling.functional as U
    f = mkfmt(FORMATS[fkey][0])
    b = mkfmt(FORMATS[fkey][1])
    fl, bl = fmt_label(f), fmt_label(b)
    env: Dict[Any, Any] = {}

    def val(x: Any) -> Any:
        if isinstance(x, torch.fx.Node):
            return env[x]
        if isinstance(x, (tuple, list)):
            return type(x)(val(v) for v in x)
        if isinstance(x, dict):
            return {k: val(v) for k, v in x.items()}
        return x

    out = None
    for n in gm.graph.nodes:
        if n.op == "placeholder":
            env[n] = leaves[str(n.target)]
        elif n.op == "get_attr":
            env[n] = getattr(gm, n.target)
        elif n.op == "output":
            out = val(n.args[0])
        elif n.op == "call_method":
            a = val(n.args)
            env[n] = getattr(a[0], n.target)(*a[1:], **val(n.kwargs))
        elif n.op == "call_function":
            args, kwargs = list(val(n.args)), dict(val(n.kwargs))
            if ix.is_hop_apply(n.target):
                if any(isinstance(a, STensor) for a in args[2:]):
                    env[n] = ix.hop_autograd_apply(args[0], args[1], args[2:])
                else:
                    env[n] = n.target(*args, **kwargs)
            elif n.target in (F.linear, U.linear):
                args[0], args[1] = ref_fwdQ(args[0], fl), ref_fwdQ(args[1], fl)  # input and weight, never the bias
                env[n] = ref_bwdQ(n.target(*args, **kwargs), bl)
            elif n.target in (F.scaled_dot_product_attention, U.scaled_dot_product_attention):
                for i in range(3):
                    args[i] = ref_fwdQ(args[i], fl)  # query, key, value - not the mask
                tgt = n.target
                if tgt is F.scaled_dot_product_attention and any(isinstance(a, STensor) for a in args):
                    from ..sym.tensor import TF
                    tgt = TF.scaled_dot_product_attention
                env[n] = ref_bwdQ(tgt(*args, **kwargs), bl)
            else:
                env[n] = n.target(*args, **kwargs)
        else:
            raise HarnessError(n.op)
    return out


def harness(spec: Any, cap: Any, fkey: str):
    def h(c: Ctx) -> None:
        info = {"program": spec_name(spec), "spec": _plain(spec), "formats": fkey}
        # unit-scaled functions used inside the module are inlined by Dynamo with their scale factors baked in as
        # constants of the example shapes: such graphs are only meaningful at those shapes -> dims stay concrete there
        stage = _quant_stage(cap)
        table = ix.size_symbols(c) if not ix.has_hop(cap.original) else {}
        with Session(), QuantSession():
            import unit_scaling.transforms._simulate_format as sf
            from ..sym.tensor import TF
            sf_F = sf.F
            sf.F = TF  # builtin shims (symbolic scalars never reach the C argument parser)
            try:
                leaves = ix.leaves_for(c, cap.original, cap.example_inputs, table)
                out = ix.SymInterp(cap.rewritten, leaves).run_symbolic()
                out = out[0] if isinstance(out, (tuple, list)) else out
                G = STensor.leaf("G", out.shape, out.dtype)
                for t in leaves.values():
                    t.grad = None
                out.backward(G)
                g_new = {k: t.grad for k, t in leaves.items()}
                for t in leaves.values():
                    t.grad = None
                ref = run_quant_reference(stage, leaves, fkey)
                ref = ref[0] if isinstance(ref, (tuple, list)) else ref
                ref.backward(G)
                g_ref = {k: t.grad for k, t in leaves.items()}
            finally:
                sf.F = sf_F
            _eq_lc(c, "output = original computation with quantised matmul operands (caller's formats)", out.lc, ref.lc, {**info, "claim": "fwd"})
            for k, t in leaves.items():
                if not t.requires_grad or (g_new[k] is None and g_ref[k] is None):
                    continue
                if g_new[k] is None or g_ref[k] is None:
                    c.oblige(f"grad[{k}] = reference", z3.BoolVal(False), info={**info, "claim": "grad", "mismatch": "missing gradient"})
                else:
                    _eq_lc(c, f"grad[{k}] = reference", g_new[k], g_ref[k], {**info, "claim": "grad"})

    return h


def concrete_compare(spec: Any, fkey: str, mode: str = "reference") -> Tuple[bool, str]:
    """On the real pipeline with the random source pinned.
    mode 'reference': rewritten module vs my reference interpreter (confirmation of a symbolic counterexample);
    mode 'raises':    does the real rewritten module raise in forward / backward (confirmation of an exception seen symbolically);
    mode 'lossless':  the property's floating-point clause, which a real-number model cannot see: with the lossless format the rewritten
                      module reproduces the ORIGINAL module's outputs and all gradients bit for bit."""
    p = build(spec)
    inputs = p.example_inputs()
    cap = capture(_transform(fkey), p, inputs)
    if cap.error:
        return True, f"simulate_format[{fkey}]({spec_name(spec)}) fails on the real TorchDynamo path: {cap.error}"
    phs = [n for n in cap.original.graph.nodes if n.op == "placeholder"]
    orig_randint = torch.randint

    def pinned(*a: Any, **k: Any) -> torch.Tensor:
        g = torch.Generator().manual_seed(1234)
        return orig_randint(*a, generator=g, **k)

    wide = [False]

    def run(fn: Any) -> Tuple[torch.Tensor, List[Optional[torch.Tensor]]]:
        leaves = {str(n.target): ((_spread(ex.detach().clone()) if wide[0] else ex.detach().clone()).requires_grad_(True) if ex.is_floating_point() else ex.detach().clone())
                  for n, ex in zip(phs, cap.example_inputs)}
        torch.randint = pinned  # type: ignore[assignment]
        try:
            out = fn(leaves)
            out = out[0] if isinstance(out, (tuple, list)) else out
            fl = [v for v in leaves.values() if v.is_floating_point()]
            gs = torch.autograd.grad(out, fl, torch.ones_like(out), allow_unused=True)
        finally:
            torch.randint = orig_randint  # type: ignore[assignment]
        return out, list(gs)

    def same(a: Optional[torch.Tensor], b: Optional[torch.Tensor]) -> bool:
        """Against MY reference interpreter.  Bit-identical, or - the property fixes which values are quantised with which format, not the
        order in which autograd adds the gradients that meet at a fan-out - identical non-finite pattern and finite parts within 64 eps of
        the tensor's largest magnitude (accumulation order moves a float32 sum by ~1e-7; the coarsest effect of a wrong / missing / extra
        quantisation with the formats used here is >= 2^-11).  The lossless-vs-ORIGINAL clause below stays bit for bit, as the property says."""
        if (a is None) != (b is None):
            return False
        if a is None:
            return True
        if a.shape != b.shape:
            return False
        if torch.equal(torch.nan_to_num(a, nan=7.25), torch.nan_to_num(b, nan=7.25)):
            return True
        fa, fb = torch.isfinite(a), torch.isfinite(b)
        if not torch.equal(fa, fb) or not torch.equal(torch.nan_to_num(a[~fa], nan=7.25), torch.nan_to_num(b[~fb], nan=7.25)):
            return False
        if not fa.any() or not a.is_floating_point():
            return False
        bound = 64 * torch.finfo(a.dtype).eps * max(float(b[fb].abs().max()), 1e-30)
        return bool(((a[fa] - b[fb]).abs() <= bound).all())

    bad = []
    if mode == "raises":
        for w in (True, False):
            wide[0] = w
            try:
                run(lambda lv: cap.rewritten(*[lv[str(n.target)] for n in phs]))
            except Exception as e:
                return True, f"simulate_format[{fkey}]({spec_name(spec)}) raises {type(e).__name__}: {str(e)[:200]}"
        return False, f"simulate_format[{fkey}]({spec_name(spec)}): the real rewritten module runs forward and backward without error"
    if mode == "lossless":
        for w in (False, True):
            wide[0] = w
            o1, g1 = run(lambda lv: cap.rewritten(*[lv[str(n.target)] for n in phs]))
            o3, g3 = run(lambda lv: cap.original(*[lv[str(n.target)] for n in phs]))
            tagw = " (wide-range data)" if w else ""
            if not (o1.shape == o3.shape and torch.equal(torch.nan_to_num(o1, nan=7.25), torch.nan_to_num(o3, nan=7.25))):
                bad.append("outputs differ from the original module's" + tagw)
            for i, (a, b) in enumerate(zip(g1, g3)):
                if (a is None) != (b is None) or (a is not None and not torch.equal(torch.nan_to_num(a, nan=7.25), torch.nan_to_num(b, nan=7.25))):
                    d = "" if a is None or b is None else f" (max abs difference {float((torch.nan_to_num(a) - torch.nan_to_num(b)).abs().max()):.3g})"
                    bad.append(f"gradient #{i} differs from the original module's{d}" + tagw)
        return bool(bad), f"simulate_format[lossless]({spec_name(spec)}) vs the original module, bit for bit: " + "; ".join(bad[:3] or ["identical outputs and gradients"])
    for w in (True, False):  # first with data that saturates / underflows the formats, then the ordinary example inputs (kept for the checks below)
        wide[0] = w
        o1, g1 = run(lambda lv: cap.rewritten(*[lv[str(n.target)] for n in phs]))
        o2, g2 = run(lambda lv: run_quant_reference(_quant_stage(cap), lv, fkey))
        tagw = " (wide-range data)" if w else ""
        if not same(o1, o2):
            bad.append("outputs differ" + tagw)
        for i, (a, b) in enumerate(zip(g1, g2)):
            if not same(a, b):
                bad.append(f"gradient #{i} differs" + tagw)
    if fkey == "lossless":
        o3, g3 = run(lambda lv: cap.original(*[lv[str(n.target)] for n in phs]))
        if not torch.equal(o1, o3) or any((a is None) != (b is None) or (a is not None and not torch.equal(a, b)) for a, b in zip(g1, g3)):
            bad.append("lossless format does not reproduce the original bit for bit")
    return bool(bad), f"simulate_format[{fkey}]({spec_name(spec)}): " + "; ".join(bad or ["bit-identical to the reference"])


def concrete_compare_root_lossless(spec: Any) -> Tuple[bool, str]:
    """simulate_format(lossless) of a module for which TorchDynamo captures nothing: real transformed module vs real original, bit for bit"""
    from unit_scaling.formats import FPFormat
    from unit_scaling.transforms import simulate_format
    p = build(spec)
    inputs = p.example_inputs()
    fmt = FPFormat(8, 23, "nearest")
    torch._dynamo.reset()
    q = simulate_format(p, fmt, fmt)

    def run(mod: Any) -> Tuple[Any, List[Any]]:
        mod.zero_grad()
        ins = [t.clone().requires_grad_(True) if t.is_floating_point() else t.clone() for t in inputs]
        out = mod(*ins)
        out = out[0] if isinstance(out, (tuple, list)) else out
        out.sum().backward()
        return out.detach().clone(), [t.grad for t in ins if t.is_floating_point()] + [v.grad for _, v in sorted(mod.named_parameters())]

    try:
        o1, g1 = run(p)
        o2, g2 = run(q)
    finally:
        torch._dynamo.reset()
    bad = []
    if not torch.equal(o1, o2):
        bad.append("outputs differ")
    if len(g1) != len(g2) or any((a is None) != (b is None) or (a is not None and not torch.equal(a, b)) for a, b in zip(g1, g2)):
        bad.append("gradients differ")
    return bool(bad), f"simulate_format[lossless]({spec_name(spec)}) vs the original module, bit for bit: " + "; ".join(bad or ["identical outputs and gradients"])


def replay_graph(obname: str, model: Dict[str, Any], info: Any) -> Tuple[bool, str]:
    if obname == "lossless-bit-exact" and info.get("root"):
        return concrete_compare_root_lossless(_unplain(info["spec"]))
    if obname == "no-exception":  # the symbolic run raised: confirmed only if the real pipeline raises too
        return concrete_compare(_unplain(info["spec"]), info["formats"], mode="raises")
    if obname == "lossless-bit-exact":
        return concrete_compare(_unplain(info["spec"]), "lossless", mode="lossless")
    return concrete_compare(_unplain(info["spec"]), info["formats"])


def task_program(spec: Any, fkey: str, timeout: float) -> List[Dict[str, Any]]:
    torch.set_num_threads(1)
    name = f"{spec_name(spec)}@{fkey}"
    p = build(spec)
    cap = capture(_transform(fkey), p, p.example_inputs())
    recs: List[Dict[str, Any]] = [{"type": "programs", "n": 1}]
    if cap.error or cap.original is None or cap.rewritten is None or cap.graphs != 1:
        if cap.error:
            recs.append({"type": "violation", "key": f"C15/{name}/runs-without-error",
                         "what": f"simulate_format[{fkey}]({spec_name(spec)}) fails on the real TorchDynamo path: {cap.error[:300]}",
                         "replay": {"info": {"spec": _plain(spec), "formats": fkey}, "obligation": "run", "model": {}}})
        elif cap.graphs == 0 and FORMATS[fkey][0][:2] != (8, 23):
            from .c16 import _never_transformed
            recs += _never_transformed("C15", name, spec, _transform(fkey), {"spec": _plain(spec), "formats": fkey})
        elif cap.graphs == 0:
            # a root torch.nn layer (TorchDynamo traces no graph, see the open finding for the lossy formats): with the lossless format a transform
            # that does nothing is not observable - the lossless clause itself is still decided on the real modules
            b, desc = concrete_compare_root_lossless(spec)
            if b:
                recs.append({"type": "violation", "key": f"C15/{name}/lossless reproduces the original bit for bit", "what": desc,
                             "replay": {"info": {"spec": _plain(spec), "formats": "lossless", "root": True}, "obligation": "lossless-bit-exact", "model": {}}})
            else:
                recs.append({"type": "obligation", "name": f"{name}/lossless reproduces the original bit for bit", "status": CONCRETE, "queries": 0, "kind": "concrete", "detail": desc})
        else:
            recs.append({"type": "obligation", "name": f"{name}/capture", "status": INCONCLUSIVE, "queries": 0, "detail": f"{cap.graphs} graphs"})
        return recs
    recs.append({"type": "obligation", "name": f"{name}/runs on the real TorchDynamo path", "status": CONCRETE, "queries": 0, "kind": "concrete", "detail": "ok"})
    recs += discharge("C15", name, harness(spec, cap, fkey), replay_graph, timeout, base_info={"spec": _plain(spec), "formats": fkey}, skip_definedness=True)
    if fkey == "lossless":
        # floating-point clause of the property, decided on the real code (labelled concrete): bit for bit against the ORIGINAL module
        try:
            b, desc = concrete_compare(spec, "lossless", mode="lossless")
        except Exception as e:
            recs.append({"type": "obligation", "name": f"{name}/lossless reproduces the original bit for bit", "status": INCONCLUSIVE, "queries": 0,
                         "detail": f"{type(e).__name__}: {str(e)[:300]}"})
            return recs
        if b:
            recs.append({"type": "violation", "key": f"C15/{name}/lossless reproduces the original bit for bit", "what": desc,
                         "replay": {"info": {"spec": _plain(spec), "formats": "lossless"}, "obligation": "lossless-bit-exact", "model": {}}})
        else:
            recs.append({"type": "obligation", "name": f"{name}/lossless reproduces the original bit for bit", "status": CONCRETE, "queries": 0, "kind": "concrete", "detail": desc})
    return recs


# ---------------------------------------------------------------------------------------------- (b) hand-built FX graphs
def handbuilt_variants() -> Dict[str, Any]:
    """call forms of the four quantised ops as they can appear in an FX graph (unit-scaled functions stay graph nodes only in
    hand-built graphs, after unit_scale(), or when allowed in graph): positional / keyword / omitted optional arguments"""
    import unit_scaling.functional as U
    L, A = U.linear, U.scaled_dot_product_attention
    FL, FA = F.linear, F.scaled_dot_product_attention
    return {
        "F.linear(x,w)": (FL, ("x", "w"), {}), "F.linear(x,w,b)": (FL, ("x", "w", "b"), {}), "F.linear(x,w,bias=b)": (FL, ("x", "w"), {"bias": "b"}),
        "U.linear(x,w,b)": (L, ("x", "w", "b"), {}), "U.linear(x,w,b,None)": (L, ("x", "w", "b", None), {}), "U.linear(x,w,b,'gmean')": (L, ("x", "w", "b", "gmean"), {}),
        "U.linear(x,w,None,None)": (L, ("x", "w", None, None), {}), "U.linear(x,w,b,constraint=None)": (L, ("x", "w", "b"), {"constraint": None}),
        "U.linear(x,w,bias=b,constraint='hmean')": (L, ("x", "w"), {"bias": "b", "constraint": "hmean"}), "U.linear(x,w)": (L, ("x", "w"), {}),
        "U.linear(x,w,b,'to_grad_input_scale')": (L, ("x", "w", "b", "to_grad_input_scale"), {}),
        "F.sdpa(q,k,v)": (FA, ("q", "k", "v"), {}), "F.sdpa(q,k,v,mask)": (FA, ("q", "k", "v", "mask"), {}), "F.sdpa(q,k,v,attn_mask=mask)": (FA, ("q", "k", "v"), {"attn_mask": "mask"}),
        "F.sdpa(q,k,v,None,0.0,True)": (FA, ("q", "k", "v", None, 0.0, True), {}), "F.sdpa(q,k,v,is_causal=True)": (FA, ("q", "k", "v"), {"is_causal": True}),
        "U.sdpa(q,k,v)": (A, ("q", "k", "v"), {}), "U.sdpa(q,k,v,mult=2.0,is_causal=True)": (A, ("q", "k", "v"), {"mult": 2.0, "is_causal": True}),
        "U.sdpa(q,k,v,mask)": (A, ("q", "k", "v", "mask"), {}), "U.sdpa(q,k,v,None,0.0,False,2.0)": (A, ("q", "k", "v", None, 0.0, False, 2.0), {}),
    }


def build_handbuilt(variant: str) -> Any:
    import torch.fx as fx
    from ..fxsym.programs import SIZES
    fn, args, kwargs = handbuilt_variants()[variant]
    g = fx.Graph()
    B, S, d0, d1 = SIZES["B"], SIZES["S"], SIZES["d0"], SIZES["d1"]
    shapes = {"x": (B, S, d0), "w": (d1, d0), "b": (d1,), "q": (B, S, d0), "k": (B, S, d0), "v": (B, S, d0), "mask": (S, S)}
    needed = [a for a in list(args) + list(kwargs.values()) if isinstance(a, str) and a in shapes]
    ph = {n: g.placeholder(n) for n in dict.fromkeys(needed)}
    node = g.call_function(fn, tuple(ph.get(a, a) if isinstance(a, str) and a in shapes else a for a in args),
                           {k: (ph[v] if isinstance(v, str) and v in shapes else v) for k, v in kwargs.items()})
    post = g.call_function(torch.tanh, (node,))
    g.output((post,))
    gm = fx.GraphModule(torch.nn.Module(), g)
    gen = torch.Generator().manual_seed(0)
    ex = [(torch.tril(torch.ones(S, S, dtype=torch.bool)) if n == "mask" else torch.randn(shapes[n], generator=gen)) for n in ph]
    return gm, ex


class _HandCap:
    def __init__(self, variant: str, fkey: str):
        import copy as _copy
        import torch.fx as fx
        from unit_scaling.transforms._simulate_format import _quantisation_backend
        gm, ex = build_handbuilt(variant)
        self.original = fx.GraphModule(gm, _copy.deepcopy(gm.graph))
        self.example_inputs = ex
        self.stages: List[Any] = []
        self.error: Optional[str] = None
        self.rewritten = None
        try:
            f, b = FORMATS[fkey]
            self.rewritten = _quantisation_backend(mkfmt(f), mkfmt(b))(gm, ex)
        except Exception as e:
            self.error = f"{type(e).__name__}: {e}"


def concrete_handbuilt(variant: str, fkey: str) -> Tuple[bool, str]:
    cap = _HandCap(variant, fkey)
    if cap.error:
        return True, f"_quantisation_backend on a hand-built graph with {variant} raised {cap.error}"
    phs = [n for n in cap.original.graph.nodes if n.op == "placeholder"]
    orig_randint = torch.randint

    def pinned(*a: Any, **k: Any) -> torch.Tensor:
        return orig_randint(*a, generator=torch.Generator().manual_seed(1234), **k)

    def run(fn: Any) -> Tuple[Any, List[Any]]:
        lv = {str(n.target): (ex.detach().clone().requires_grad_(True) if ex.is_floating_point() else ex.clone()) for n, ex in zip(phs, cap.example_inputs)}
        torch.randint = pinned  # type: ignore[assignment]
        try:
            out = fn(lv)
            out = out[0] if isinstance(out, (tuple, list)) else out
            fl = [v for v in lv.values() if v.is_floating_point()]
            gs = torch.autograd.grad(out, fl, torch.ones_like(out), allow_unused=True)
        finally:
            torch.randint = orig_randint  # type: ignore[assignment]
        return out, list(gs)

    try:
        o1, g1 = run(lambda lv: cap.rewritten(*[lv[str(n.target)] for n in phs]))
    except Exception as e:
        return True, f"quantised hand-built graph with {variant} raised {type(e).__name__}: {str(e)[:200]}"
    o2, g2 = run(lambda lv: run_quant_reference(cap.original, lv, fkey))
    bad = []
    if not torch.equal(o1, o2):
        bad.append("outputs differ")
    for i, (a, b) in enumerate(zip(g1, g2)):
        if (a is None) != (b is None) or (a is not None and not torch.equal(a, b)):
            bad.append(f"gradient #{i} differs")
    return bool(bad), f"hand-built {variant} @ {fkey}: " + "; ".join(bad or ["bit-identical to the reference"])


def task_handbuilt(variant: str, fkey: str, timeout: float) -> List[Dict[str, Any]]:
    torch.set_num_threads(1)
    name = f"handbuilt[{variant}]@{fkey}"
    cap = _HandCap(variant, fkey)
    recs: List[Dict[str, Any]] = [{"type": "programs", "n": 1}]
    if cap.error:
        return recs + [{"type": "violation", "key": f"C15/{name}/runs-without-error", "what": f"_quantisation_backend on a hand-built FX graph with {variant} raised {cap.error}",
                        "replay": {"info": {"handbuilt": variant, "formats": fkey}, "obligation": "run", "model": {}}}]
    spec = (((variant, ()),), None, False)

    def rp(ob: str, model: Dict[str, Any], info: Any) -> Tuple[bool, str]:
        return concrete_handbuilt(variant, fkey)

    recs += discharge("C15", name, harness(spec, cap, fkey), rp, timeout, base_info={"handbuilt": variant, "formats": fkey}, skip_definedness=True)
    return recs


def task_fp8_instance() -> List[Dict[str, Any]]:
    """simulate_fp8 is the E4M3-forward / E5M2-backward instance: read the formats it passes on."""
    import unit_scaling.transforms._simulate_format as sf
    got: List[Any] = []
    orig = sf.simulate_format
    sf.simulate_format = lambda module, fwd_format, bwd_format: got.append((fwd_format, bwd_format)) or module  # type: ignore[assignment]
    try:
        sf.simulate_fp8(torch.nn.Linear(2, 2))
    finally:
        sf.simulate_format = orig  # type: ignore[assignment]
    ok = len(got) == 1 and (got[0][0].exponent_bits, got[0][0].mantissa_bits, got[0][1].exponent_bits, got[0][1].mantissa_bits) == (4, 3, 5, 2)
    if not ok:
        return [{"type": "violation", "key": "C15/simulate_fp8-is-E4M3/E5M2", "what": f"simulate_fp8 passes {got}", "replay": {"kind": "fp8"}}]
    return [{"type": "obligation", "name": "simulate_fp8 = simulate_format(E4M3, E5M2)", "status": CONCRETE, "queries": 0, "kind": "concrete", "detail": str(got)}]


def run(rep: Report, only: str = "") -> None:
    from unit_scaling import formats as fm
    from unit_scaling.transforms import _simulate_format as sf
    thorough = rep.tier == "thorough"
    timeout = 60 if thorough else 30
    tasks: List[Any] = []
    for which in ("quantise_fwd", "quantise_bwd"):
        for fkey in FORMATS:
            for rank in ((0, 1, 2, 3) if thorough else (1, 3)):
                tasks.append((task_ste, (which, fkey, rank)))
    tasks += [(task_ste_sequence, ("quantise_fwd",)), (task_ste_sequence, ("quantise_bwd",))]
    tasks += [(task_arguments_untouched, (fk,)) for fk in FORMATS]
    # lossless format: bit-vector proof over every float32 (engine B) for nearest and for the stochastic default
    for claim in ("fixed", "no_error", "shape_dtype", "unmodified"):
        tasks.append((bits_task, (8, 23, "nearest", 0, claim, 300)))
        tasks.append((bits_task, (8, 23, "stochastic", 0, claim, 300)))
    specs = qprograms(rep.tier) + root_specs()
    for sp in specs:
        for fkey in FORMATS:
            if fkey.startswith("us+") and any(k.startswith(("ulin", "uattn")) for k, _ in sp[0]):
                continue  # unit_scale() of a module that already calls unit-scaled functions is outside the property
            if thorough or fkey in ("fp8", "mixed", "us+mixed") or (sum(map(ord, spec_name(sp))) % 3 == 0):
                tasks.append((task_program, (sp, fkey, timeout)))
    for variant in handbuilt_variants():
        for fkey in (("fp8", "mixed", "lossless", "fp8-nearest") if thorough else ("mixed", "lossless")):
            tasks.append((task_handbuilt, (variant, fkey, timeout)))
    tasks.append((task_fp8_instance, ()))
    if only:
        tasks = [t for t in tasks if only in repr(t[1]) or (t[0] is task_program and only in spec_name(t[1][0]))]
    rep.extend(run_tasks(tasks))
    rep.functions = [describe_function(f) for f in (lazy(lambda: fm.FPFormat.quantise_fwd), lazy(lambda: fm.FPFormat.quantise_bwd), lazy(lambda: fm.FPFormat.quantise), lazy(lambda: fm.format_to_tuple), lazy(lambda: fm.tuple_to_format),
                                                    lazy(lambda: sf._replace_with_quantised), lazy(lambda: sf._quantisation_backend), lazy(lambda: sf._quantised_linear), lazy(lambda: sf._quantised_u_linear),
                                                    lazy(lambda: sf._quantised_scaled_dot_product_attention), lazy(lambda: sf._quantised_u_scaled_dot_product_attention), lazy(lambda: sf.simulate_format), lazy(lambda: sf.simulate_fp8))]
    rep.bounds = {"programs": f"{len(specs)} programs over linear (bias / no bias / bias by keyword), unit-scaled linear (constraint positional, keyword, None), attention (plain, causal, "
                              "dropout_p=0 + scale, mask by keyword, mask positional), unit-scaled attention, with elementwise / norm / add / reshape fillers, residual blocks, heads; "
                              "enumerated, depth <= 3 (quick)", "format pairs": list(FORMATS),
                  "per program": "all data and dims universally quantified; Q an opaque op labelled (E, M, rounding, srbits); stochastic rounding compared under 'same generator state'",
                  "lossless": "E8M23 nearest and stochastic-default: Q(x) = x bit for bit for every float32 |x| < 2^126 (z3 bit-vectors)",
                  "outside": "depth > 3 graphs, rank != 3 inputs (data layout is universally quantified but the program family fixes (B,S,d))"}
    rep.assumptions = ["reference = original graph with bwdQ(op(fwdQ(tensor operands), bias/mask/kwargs untouched)) written by hand (vf/checks/c15.py:run_quant_reference)"]
    rep.trusted = ["TorchDynamo capture", "engine S", "engine B for the lossless clause"]
    rep.sample({"program": "flin_kw@mixed", "claim": "output and all gradients equal the reference with formats (3,2,stochastic,4)/(5,2,nearest,0)"})


def replay(data: Dict[str, Any]) -> Tuple[bool, str]:
    if data.get("kind") == "untouched":
        return arguments_untouched(data["format"])
    if data.get("kind") == "fp8":
        r = task_fp8_instance()
        v = [x for x in r if x.get("type") == "violation"]
        return bool(v), str(v or "ok")
    info = data.get("info") or {}
    if info.get("sequence"):
        return replay_ste_sequence(data["obligation"], data["model"], info)
    if "which" in info:
        return replay_ste(data["obligation"], data["model"], info)
    if "handbuilt" in info:
        return concrete_handbuilt(info["handbuilt"], info["formats"])
    if info.get("never"):
        from .c16 import _never_transformed
        r = _never_transformed("C15", "replay", _unplain(info["spec"]), _transform(info["formats"]), info)
        v = [x for x in r if x.get("type") == "violation"]
        return bool(v), str([x["what"] for x in v] or "transform applied")
    if "spec" in info:
        return replay_graph(data.get("obligation", ""), data.get("model") or {}, info)
    from ..fpbits.claims import concrete_eval
    holds, desc = concrete_eval(data["E"], data["M"], data["rounding"], data["srbits"], data["claim"], {k: int(v) for k, v in data["witness"].items()},
                                data.get("dtype", "float32"), tuple(data.get("shape", [3])))
    return (not holds), desc
