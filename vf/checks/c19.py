"""C19 - graph pruning removes exactly the intended nodes and keeps the graph connected (engine G + S).

Tracked graphs come from the REAL track_scales() run through TorchDynamo on real modules.  For the same-scale helper
the recorded mean-|x| values (forward and backward) and rtol are replaced by solver symbols; the real
prune_same_scale_tensors then runs with path forking on every comparison (math.isclose = its documented formula in z3)
and, per path, the solver checks  path condition => (removed <=> documented rule)  on the same symbols; the rewritten
arguments of every surviving consumer are compared with an independently computed bypass.  Selective pruning runs
with a solver-selected target set.  Non-float pruning has no numeric input: structural, per graph."""
from __future__ import annotations

import copy
import itertools
import math
from typing import Any, Callable, Dict, List, Optional, Set, Tuple

import torch
import torch.fx as fx
import torch.nn.functional as F
import z3
from torch import nn
from torch.fx.node import Node, map_arg

from ..par import run_tasks
from ..report import CONCRETE, INCONCLUSIVE, Report, describe_function, lazy
from ..sym.runner import discharge
from ..sym.scalar import Ctx, SBool, SReal, _sreal
from ..sym.tensor import Session


# ------------------------------------------------------------------------------------------ modules
class Views(nn.Module):
    def __init__(self) -> None:
        super().__init__()
        self.l = nn.Linear(6, 6)

    def forward(self, x: torch.Tensor) -> torch.Tensor:
        h = self.l(x)
        v = h.reshape(2, 3, 6).transpose(1, 2)
        return (-v).contiguous().sum()


class RotateHalf(nn.Module):
    def __init__(self) -> None:
        super().__init__()
        self.l = nn.Linear(6, 6)

    def forward(self, x: torch.Tensor) -> torch.Tensor:
        h = self.l(x)
        a, b = h[..., :3], h[..., 3:]
        r = torch.cat([-b, a], dim=-1)
        return (h * r).sum()


class CatViews(nn.Module):
    def forward(self, x: torch.Tensor) -> torch.Tensor:
        v = x.reshape(6, 6)
        w = -v
        return torch.stack([v, w], dim=0).tanh().sum()


class KwTensors(nn.Module):
    def __init__(self) -> None:
        super().__init__()
        self.w = nn.Parameter(torch.randn(6))
        self.b = nn.Parameter(torch.randn(6))

    def forward(self, x: torch.Tensor) -> torch.Tensor:
        y = x.view(6, 6)
        z = F.layer_norm(y, (6,), weight=self.w.view(6), bias=self.b)
        return torch.add(input=z, other=y.neg()).sum()


class IntIndex(nn.Module):
    def forward(self, x: torch.Tensor) -> torch.Tensor:
        i = torch.argmax(x, dim=-1, keepdim=True)
        j = i.clone()
        g = torch.gather(x, -1, j)
        m = x > 0
        return (g * torch.where(m, x, -x)).sum()


class TwoFloatToBool(nn.Module):
    """a non-float node with TWO float-tensor inputs (must be cut, not bypassed to one of them)"""

    def forward(self, x: torch.Tensor) -> torch.Tensor:
        y = x.flip(-1)
        m = torch.gt(x, y)
        return torch.where(m, x, -y).sum()


class FloatFeedsOnlyBool(nn.Module):
    """float-tensor nodes whose ONLY consumer is a non-float node that is cut (two float inputs): they lose every user and must
    nevertheless stay in the pruned graph (documented removals only)"""

    def __init__(self) -> None:
        super().__init__()
        self.l = nn.Linear(6, 6)

    def forward(self, x: torch.Tensor) -> torch.Tensor:
        h = self.l(x)
        m = torch.gt(torch.tanh(h), torch.sigmoid(x))
        return torch.where(m, h, -h).sum()


class IntFirst(nn.Module):
    """the FIRST node of the tracked graph is a non-float tensor (an integer index input used before any parameter or float input)"""

    def __init__(self) -> None:
        super().__init__()
        self.e = nn.Embedding(9, 6)
        self.p = nn.Embedding(5, 6)

    def forward(self, idx: torch.Tensor) -> torch.Tensor:
        pos = torch.arange(idx.shape[-1])
        j = idx.unsqueeze(0).squeeze(0)
        return (self.e(j) + self.p(pos)).tanh().sum()


class DynSlice(nn.Module):
    """slices by a shape-derived size; called with two different lengths so that TorchDynamo re-traces with a symbolic
    size: the tracked graph then holds non-float nodes (size placeholder, floordiv) INSIDE slice objects"""

    def __init__(self) -> None:
        super().__init__()
        self.l = nn.Linear(6, 6)

    def forward(self, x: torch.Tensor) -> torch.Tensor:
        h = self.l(x)
        n = h.shape[0] // 2
        a, b = h[:n], h[n: 2 * n]
        return (torch.cat([-b, a], dim=0) * h[: 2 * n]).sum()


class MultiOut(nn.Module):
    def __init__(self) -> None:
        super().__init__()
        self.l = nn.Linear(6, 6)

    def forward(self, x: torch.Tensor) -> Tuple[torch.Tensor, torch.Tensor]:
        h = self.l(x)
        v = h.view(-1)
        return v.relu().sum(), (-h).sum()


class NameCollision(nn.Module):
    """a method call whose string target ('relu', 'neg') is also the NAME TorchDynamo gives to a function-call node of the same graph:
    selecting the method target must remove the method nodes only"""

    def __init__(self) -> None:
        super().__init__()
        self.l = nn.Linear(6, 6)

    def forward(self, x: torch.Tensor) -> torch.Tensor:
        # no local names: TorchDynamo then names the nodes after their targets (relu, neg, relu_1, neg_1, neg_2)
        return (torch.neg(F.relu(self.l(x))).relu() + torch.neg(x).neg()).sum()


class Residual(nn.Module):
    def __init__(self) -> None:
        super().__init__()
        self.l = nn.Linear(6, 6)

    def forward(self, x: torch.Tensor) -> torch.Tensor:
        y = x.reshape(6, 6)
        return (y + F.gelu(self.l(y)).view(6, 6)).flatten().sum()


class Embed(nn.Module):
    def __init__(self) -> None:
        super().__init__()
        self.e = nn.Embedding(9, 6)
        self.l = nn.Linear(6, 9)

    def forward(self, i: torch.Tensor) -> torch.Tensor:
        h = self.e(i)
        return F.cross_entropy(self.l(h.unsqueeze(0).squeeze(0)), i)


MODULES: Dict[str, Tuple[Callable[[], nn.Module], Callable[[], List[torch.Tensor]]]] = {
    "views": (Views, lambda: [torch.randn(6, 6)]), "rotate_half": (RotateHalf, lambda: [torch.randn(4, 6)]),
    "cat_views": (CatViews, lambda: [torch.randn(36)]), "kw_tensors": (KwTensors, lambda: [torch.randn(36)]),
    "int_index": (IntIndex, lambda: [torch.randn(4, 6)]), "two_float_to_bool": (TwoFloatToBool, lambda: [torch.randn(4, 6)]),
    "int_first": (IntFirst, lambda: [torch.randint(0, 9, (5,))]),
    "float_feeds_only_bool": (FloatFeedsOnlyBool, lambda: [torch.randn(4, 6)]), "multi_out": (MultiOut, lambda: [torch.randn(4, 6)]),
    "name_collision": (NameCollision, lambda: [torch.randn(4, 6)]),
    "residual": (Residual, lambda: [torch.randn(36)]), "dyn_slice": (DynSlice, lambda: [[torch.randn(6, 6)], [torch.randn(8, 6)]]), "embed": (Embed, lambda: [torch.randint(0, 9, (5,))]),
}


def tracked_graph(mname: str, backward: bool) -> fx.Graph:
    from unit_scaling.transforms import track_scales
    torch.manual_seed(0)
    torch._dynamo.reset()
    mk, ins = MODULES[mname]
    m = track_scales(mk())
    inputs = ins()
    if inputs and isinstance(inputs[0], list):  # several calls (the last one defines the tracked graph)
        for extra in inputs[:-1]:
            m(*extra)
        inputs = inputs[-1]
    out = m(*inputs)
    if backward:
        loss = out[0] + out[1] if isinstance(out, tuple) else out
        loss.backward()
    torch._dynamo.reset()
    return m.scales_graph()


# ------------------------------------------------------------------------------------------ oracle helpers (independent of the library)
def float_args(n: Node) -> List[Node]:
    return [a for a in n.args if isinstance(a, Node) and a.meta.get("outputs_float_tensor", False)]


def names(g: fx.Graph) -> List[str]:
    return [n.name for n in g.nodes]


def arg_sig(a: Any) -> Any:
    if isinstance(a, Node):
        return ("node", a.name)
    if isinstance(a, (tuple, list)):
        return tuple(arg_sig(x) for x in a)
    if isinstance(a, dict):
        return tuple(sorted((k, arg_sig(v)) for k, v in a.items()))
    if isinstance(a, slice):
        return ("slice", arg_sig(a.start), arg_sig(a.stop), arg_sig(a.step))
    return repr(a)


def expected_args(orig: fx.Graph, removed: Set[str], repl: Dict[str, Optional[str]]) -> Dict[str, Tuple[Any, Any]]:
    """arguments every surviving node must end up with: each removed node replaced - wherever it occurs, positional,
    keyword or nested - by its (transitively resolved) replacement (None when the edge is cut)"""

    def resolve(name: str) -> Any:
        seen = set()
        while name in removed:
            if name in seen:
                return None
            seen.add(name)
            nxt = repl.get(name)
            if nxt is None:
                return None
            name = nxt
        return ("node", name)

    def rw(a: Any) -> Any:
        if isinstance(a, Node):
            return resolve(a.name) if a.name in removed else ("node", a.name)
        if isinstance(a, (tuple, list)):
            return tuple(rw(x) for x in a)
        if isinstance(a, dict):
            return tuple(sorted((k, rw(v)) for k, v in a.items()))
        if isinstance(a, slice):
            return ("slice", rw(a.start), rw(a.stop), rw(a.step))
        return repr(a)

    def norm(x: Any) -> Any:
        if x is None:
            return repr(None)
        return x

    out = {}
    for n in orig.nodes:
        if n.name not in removed:
            out[n.name] = (_none(rw(n.args)), _none(rw(n.kwargs)))
    return out


def _none(x: Any) -> Any:
    if x is None:
        return repr(None)
    if isinstance(x, tuple) and not (len(x) == 2 and x[0] == "node"):
        return tuple(_none(v) for v in x)
    return x


def check_result(orig: fx.Graph, snap: List[Tuple[str, Any, Any]], res: fx.Graph, removed_expected: Optional[Set[str]], repl: Dict[str, Optional[str]],
                 copying: bool) -> List[str]:
    bad: List[str] = []
    try:
        res.lint()
    except Exception as e:
        bad.append(f"result graph fails lint: {e}")
    on, rn = [s[0] for s in snap], names(res)
    it = iter(on)
    if not all(any(x == y for y in it) for x in rn):
        bad.append(f"surviving nodes are not the original nodes in the original order: {rn}")
    removed = set(on) - set(rn)
    if removed_expected is not None and removed != removed_expected:
        bad.append(f"removed {sorted(removed)} but the documented rule removes {sorted(removed_expected)}")
    if copying:
        now = [(n.name, arg_sig(n.args), arg_sig(n.kwargs)) for n in orig.nodes]
        if now != snap:
            bad.append("the input graph was modified")
    exp = expected_args(_rebuild(snap, orig), removed, repl)
    for n in res.nodes:
        if n.name in exp:
            got = (_none(arg_sig(n.args)), _none(arg_sig(n.kwargs)))
            if got != exp[n.name]:
                bad.append(f"{n.name}: arguments {got} instead of {exp[n.name]} (a removed producer was not bypassed / not cut at every occurrence)")
    return bad


class _N:
    def __init__(self, name: str, args: Any, kwargs: Any):
        self.name, self.args, self.kwargs = name, args, kwargs


def _rebuild(snap: List[Tuple[str, Any, Any]], orig: fx.Graph) -> Any:
    class G:
        nodes = list(orig.nodes)
    return G


# ------------------------------------------------------------------------------------------ same-scale pruning, symbolic metrics
def h_same_scale(mname: str, backward: bool, rtol_kind: str):
    def h(c: Ctx) -> None:
        import unit_scaling.transforms._track_scales as uts
        info = {"module": mname, "backward": backward, "rtol": rtol_kind}
        g = tracked_graph(mname, backward)
        rtol: Any = c.real("rtol", 0, 1, lo_strict=True) if rtol_kind == "sym" else float(rtol_kind)
        sym: Dict[str, Tuple[Any, Any]] = {}
        with Session():
            for n in g.nodes:
                m = n.meta.get("metrics")
                if m is None:
                    continue
                f = c.real(f"fwd_{n.name}", 0, 10 ** 6)
                b = c.real(f"bwd_{n.name}", 0, 10 ** 6) if m.bwd is not None else None
                sym[n.name] = (f, b)
                m2 = uts.Metrics.__new__(uts.Metrics)
                m2.fwd = copy.copy(m.fwd)
                m2.fwd.mean_abs = f
                m2.bwd = None
                if m.bwd is not None:
                    m2.bwd = copy.copy(m.bwd)
                    m2.bwd.mean_abs = b
                n.meta["metrics"] = m2
            snap = [(n.name, arg_sig(n.args), arg_sig(n.kwargs)) for n in g.nodes]
            res = uts.prune_same_scale_tensors(g, rtol)
        rz = _sreal(rtol).z

        def close(a: Any, b: Any) -> Any:
            ab = lambda v: z3.If(v >= 0, v, -v)
            mx = z3.If(ab(a) >= ab(b), ab(a), ab(b))
            return ab(a - b) <= rz * mx

        def same_scale(x: str, y: str) -> Any:
            (fx_, bx), (fy, by) = sym[x], sym[y]
            if bx is None and by is None:
                return close(fx_.z, fy.z)
            if bx is None or by is None:
                return z3.BoolVal(False)
            return z3.And(close(fx_.z, fy.z), close(bx.z, by.z))

        rn = set(names(res))
        removed = [s[0] for s in snap if s[0] not in rn]
        byname = {n.name: n for n in g.nodes}
        repl: Dict[str, Optional[str]] = {}

        def resolve(name: str) -> str:
            while name in repl and repl[name] is not None and name not in rn:
                name = repl[name]  # type: ignore[assignment]
            return name

        ok_elig = True
        for n in g.nodes:  # original order: replacement of a removed node = its single float input, resolved through earlier removals
            if n.name == "output" or not n.meta.get("outputs_float_tensor", False):
                continue
            fa = float_args(n)
            if n.name in removed:
                if len(fa) != 1:
                    ok_elig = False
                    continue
                a = resolve(fa[0].name)
                repl[n.name] = a
                c.oblige(f"{n.name} removed => same scale as the node it is bypassed to ({a})", same_scale(n.name, a), info={**info, "claim": "same"})
            elif len(fa) == 1:
                a = resolve(fa[0].name)
                c.oblige(f"{n.name} kept => not same scale as its single float input ({a})", z3.Not(same_scale(n.name, a)), info={**info, "claim": "same"})
        c.oblige("only eligible nodes (float, exactly one float-tensor input) are removed", z3.BoolVal(ok_elig and all(byname[r].meta.get("outputs_float_tensor") for r in removed)),
                 info={**info, "claim": "same"})
        bad = check_result(g, snap, res, None, repl, copying=True)
        c.oblige("well-formed result: lint, original order, input graph unchanged, every removed node bypassed at every occurrence", z3.BoolVal(not bad),
                 info={**info, "claim": "structure", "detail": "; ".join(bad[:3])})

    return h


def concrete_same_scale(mname: str, backward: bool, rtol: float, override: Optional[Dict[str, float]] = None) -> List[str]:
    import unit_scaling.transforms._track_scales as uts
    g = tracked_graph(mname, backward)
    if override:
        for n in g.nodes:
            m = n.meta.get("metrics")
            if m is None:
                continue
            if f"fwd_{n.name}" in override:
                m.fwd.mean_abs = float(override[f"fwd_{n.name}"])
            if m.bwd is not None and f"bwd_{n.name}" in override:
                m.bwd.mean_abs = float(override[f"bwd_{n.name}"])
    snap = [(n.name, arg_sig(n.args), arg_sig(n.kwargs)) for n in g.nodes]
    try:
        res = uts.prune_same_scale_tensors(g, rtol)
    except Exception as e:
        return [f"prune_same_scale_tensors raised {type(e).__name__}: {e}"]

    def same(x: Node, y: Node) -> bool:
        mx, my = x.meta["metrics"], y.meta["metrics"]
        f = math.isclose(mx.fwd.mean_abs, my.fwd.mean_abs, rel_tol=rtol)
        if mx.bwd is None and my.bwd is None:
            return f
        if mx.bwd is None or my.bwd is None:
            return False
        return f and math.isclose(mx.bwd.mean_abs, my.bwd.mean_abs, rel_tol=rtol)

    # documented rule simulated independently
    alive: Dict[str, str] = {}
    removed: Set[str] = set()
    repl: Dict[str, Optional[str]] = {}
    byname = {n.name: n for n in g.nodes}

    def resolve(name: str) -> str:
        while name in removed:
            name = repl[name]  # type: ignore[assignment]
        return name

    for n in g.nodes:
        if n.name == "output" or not n.meta.get("outputs_float_tensor", False):
            continue
        fa = float_args(n)
        if len(fa) == 1:
            a = resolve(fa[0].name)
            if same(n, byname[a]):
                removed.add(n.name)
                repl[n.name] = a
    return check_result(g, snap, res, removed, repl, copying=True)


def replay_same(obname: str, model: Dict[str, Any], info: Any) -> Tuple[bool, str]:
    rtol = float(model.get("rtol", 2 ** -8)) if info["rtol"] == "sym" else float(info["rtol"])
    ov = {k: float(v) for k, v in model.items() if k.startswith(("fwd_", "bwd_"))}
    bad = concrete_same_scale(info["module"], info["backward"], rtol, ov)
    return bool(bad), f"prune_same_scale_tensors({info['module']}, rtol={rtol}) with mean_abs {ov}: " + "; ".join(bad[:3] or ["matches the documented rule"])


def task_same(mname: str, backward: bool, rtol_kind: str, timeout: float) -> List[Dict[str, Any]]:
    torch.set_num_threads(1)
    recs: List[Dict[str, Any]] = [{"type": "programs", "n": 1}]
    recs += discharge("C19", f"same_scale[{mname},bwd={backward},rtol={rtol_kind}]", h_same_scale(mname, backward, rtol_kind), replay_same, timeout, max_paths=400,
                      base_info={"module": mname, "backward": backward, "rtol": rtol_kind})
    return recs


def task_same_concrete(mname: str, backward: bool) -> List[Dict[str, Any]]:
    torch.set_num_threads(1)
    recs: List[Dict[str, Any]] = []
    for rtol in (2 ** -16, 2 ** -8, 2 ** -2):
        bad = concrete_same_scale(mname, backward, rtol)
        name = f"same_scale-real-metrics[{mname},bwd={backward},rtol=2^{int(math.log2(rtol))}]"
        if bad:
            recs.append({"type": "violation", "key": f"C19/{name}", "what": "; ".join(bad[:3]),
                         "replay": {"kind": "same_concrete", "module": mname, "backward": backward, "rtol": rtol}})
        else:
            recs.append({"type": "obligation", "name": name, "status": CONCRETE, "queries": 0, "kind": "concrete", "detail": "recorded metrics of the real run"})
    return recs


# ------------------------------------------------------------------------------------------ non-float pruning (structural)
def concrete_non_float(mname: str, backward: bool) -> List[str]:
    import unit_scaling.transforms._track_scales as uts
    g = tracked_graph(mname, backward)
    snap = [(n.name, arg_sig(n.args), arg_sig(n.kwargs)) for n in g.nodes]
    try:
        res = uts.prune_non_float_tensors(g)
    except Exception as e:
        return [f"prune_non_float_tensors raised {type(e).__name__}: {e}"]
    removed: Set[str] = set()
    repl: Dict[str, Optional[str]] = {}
    byname = {n.name: n for n in g.nodes}

    def resolve(name: str) -> Optional[str]:
        while name in removed:
            nxt = repl.get(name)
            if nxt is None:
                return None
            name = nxt
        return name

    for n in g.nodes:  # in graph order: a node's float-tensor inputs are judged after earlier removals have been bypassed
        if n.name != "output" and not n.meta.get("outputs_float_tensor", False):
            cur = [resolve(a.name) for a in n.args if isinstance(a, Node)]
            fa = [a for a in cur if a is not None and byname[a].meta.get("outputs_float_tensor", False)]
            removed.add(n.name)
            repl[n.name] = fa[0] if len(fa) == 1 else None
    return check_result(g, snap, res, removed, repl, copying=True)


def task_non_float(mname: str, backward: bool) -> List[Dict[str, Any]]:
    torch.set_num_threads(1)
    bad = concrete_non_float(mname, backward)
    name = f"non_float[{mname},bwd={backward}]"
    if bad:
        return [{"type": "violation", "key": f"C19/{name}", "what": "; ".join(bad[:3]), "replay": {"kind": "non_float", "module": mname, "backward": backward}}]
    return [{"type": "obligation", "name": name, "status": CONCRETE, "queries": 0, "kind": "structural",
             "detail": "exactly the non-float nodes removed, bypassed to their single float input at every occurrence, input graph unchanged, lint ok"}]


# ------------------------------------------------------------------------------------------ selective pruning, symbolic target set
def _same_target(a: Any, b: Any) -> bool:
    """membership of real lists / sets: identity or ==; strings (method, attribute and placeholder targets) compare by value"""
    if a is b:
        return True
    return isinstance(a, str) and isinstance(b, str) and a == b


class SymElem:
    """one element of the symbolic target set as real containers see it: `list(targets)`, `set(targets)`, `x in list(targets)`
    all end in `elem == x` (after a hash match for sets), which the solver decides"""

    def __init__(self, t: Any, v: Any):
        self.t, self.v = t, v

    def __eq__(self, other: Any) -> Any:
        if isinstance(other, SymElem):
            return other is self
        return bool(SBool(self.v)) if _same_target(self.t, other) else False

    def __ne__(self, other: Any) -> Any:
        return not self.__eq__(other)

    def __hash__(self) -> int:
        return hash(self.t)


class SymTargets:
    """a target set whose membership is decided by the solver, per distinct call target; it can be iterated / materialised
    (`list(targets)`, `set(targets)`, `tuple(targets)`): the copies hold SymElem stand-ins whose equality is the same solver decision"""

    def __init__(self, c: Ctx, targets: List[Any]):
        self.elems: List[SymElem] = []
        self.sel = {}
        for i, t in enumerate(targets):
            v = z3.Bool(f"sel{i}")
            self.sel[id(t)] = (t, v)
            self.elems.append(SymElem(t, v))
            c.extra_vars[f"sel{i}"] = v

    def __contains__(self, x: Any) -> Any:
        for e in self.elems:
            if _same_target(e.t, x):
                return bool(SBool(e.v))
        return False

    def __iter__(self) -> Any:
        return iter(list(self.elems))

    def __len__(self) -> int:
        return len(self.elems)


def distinct_targets(g: fx.Graph) -> List[Any]:
    targets: List[Any] = []
    for n in g.nodes:
        if n.op in ("call_function", "call_method") and all(not _same_target(n.target, t) for t in targets):
            targets.append(n.target)
    return targets[:6]


def h_selected(mname: str):
    def h(c: Ctx) -> None:
        import unit_scaling.transforms._track_scales as uts
        info = {"module": mname}
        g = tracked_graph(mname, False)
        targets = distinct_targets(g)
        st = SymTargets(c, targets)
        snap = [(n.name, arg_sig(n.args), arg_sig(n.kwargs)) for n in g.nodes]
        node_t = {n.name: next((i for i, t in enumerate(targets) if _same_target(t, n.target)), None)
                  for n in g.nodes if n.op in ("call_function", "call_method")}
        gc = copy.deepcopy(g)
        res = uts.prune_selected_nodes(gc, st)
        rn = set(names(res))
        removed = {s[0] for s in snap if s[0] not in rn}
        # removed <=> target selected (under the path condition)
        for name, ti in node_t.items():
            if ti is None:
                c.oblige(f"{name}: target outside the set is kept", z3.BoolVal(name not in removed), info={**info, "claim": "sel"})
                continue
            v = st.sel[id(targets[ti])][1]
            c.oblige(f"{name}: removed iff its target is selected", v == z3.BoolVal(name in removed), info={**info, "claim": "sel"})
        c.oblige("placeholders and output are kept", z3.BoolVal(all(s[0] in rn for s in snap if s[0] not in node_t)), info={**info, "claim": "sel"})
        bad = check_result(g, snap, res, None, {r: None for r in removed}, copying=False)
        c.oblige("well-formed result: lint, original order, the edge to a removed node is cut at every occurrence", z3.BoolVal(not bad),
                 info={**info, "claim": "structure", "detail": "; ".join(bad[:3])})

    return h


def replay_selected(obname: str, model: Dict[str, Any], info: Any) -> Tuple[bool, str]:
    import unit_scaling.transforms._track_scales as uts
    g = tracked_graph(info["module"], False)
    targets = distinct_targets(g)
    chosen = [t for i, t in enumerate(targets) if str(model.get(f"sel{i}", "False")) in ("True", "1") or model.get(f"sel{i}") is True]
    snap = [(n.name, arg_sig(n.args), arg_sig(n.kwargs)) for n in g.nodes]
    try:
        res = uts.prune_selected_nodes(copy.deepcopy(g), chosen)
    except Exception as e:
        return True, f"prune_selected_nodes({info['module']}, {[getattr(t, '__name__', t) for t in chosen]}) raised {type(e).__name__}: {e}"
    removed = {n.name for n in g.nodes if any(_same_target(n.target, t) for t in chosen) and n.op in ("call_function", "call_method")}
    bad = check_result(g, snap, res, removed, {r: None for r in removed}, copying=False)
    return bool(bad), f"prune_selected_nodes({info['module']}, {[getattr(t, '__name__', t) for t in chosen]}): " + "; ".join(bad[:3] or ["ok"])


def task_selected(mname: str, timeout: float) -> List[Dict[str, Any]]:
    torch.set_num_threads(1)
    return discharge("C19", f"selected[{mname}]", h_selected(mname), replay_selected, timeout, max_paths=200, base_info={"module": mname})


def run(rep: Report, only: str = "") -> None:
    import unit_scaling.transforms._track_scales as uts
    thorough = rep.tier == "thorough"
    timeout = 60 if thorough else 30
    tasks: List[Any] = []
    for mname in MODULES:
        for bw in (True, False):
            tasks.append((task_non_float, (mname, bw)))
            tasks.append((task_same_concrete, (mname, bw)))
            if mname == "name_collision":
                continue  # a chain of six single-input nodes: built for the selective pruning (names vs targets); its same-scale path space exceeds the path budget
            for rk in (("sym", str(2 ** -16), str(2 ** -8), str(2 ** -2)) if thorough else ("sym",)):
                tasks.append((task_same, (mname, bw, rk, timeout)))
        tasks.append((task_selected, (mname, timeout)))
    if only:
        tasks = [t for t in tasks if only in repr(t[1]) or only in t[0].__name__]
    rep.extend(run_tasks(tasks))
    rep.functions = [describe_function(f) for f in (lazy(lambda: uts._prune), lazy(lambda: uts.prune_same_scale_tensors), lazy(lambda: uts.prune_non_float_tensors), lazy(lambda: uts.prune_selected_nodes),
                                                    lazy(lambda: uts._metrics_same_scale), lazy(lambda: uts._directions_same_scale), lazy(lambda: uts._filter_float_tensors))]
    rep.bounds = {"graphs": f"{len(MODULES)} tracked graphs from the real track_scales (views/reshapes/negations, rotate-half and stack list arguments, keyword tensor arguments, integer index "
                            "tensors, bool masks, multi-output, residual, embedding + cross-entropy), forward-only and forward+backward; enumerated",
                  "same-scale": "every node's forward and backward mean-|x| a symbolic real in [0, 1e6], rtol symbolic in (0,1) (thorough also the three given values); all comparison outcomes "
                                "explored by path forking (<= 400 paths per graph)",
                  "selective": "target set = solver-selected subset of the (first 6) distinct call targets of each graph",
                  "outside": "graphs larger than the family; metrics other than mean_abs do not influence pruning"}
    rep.assumptions = ["math.isclose(a, b, rel_tol=r) is |a-b| <= r*max(|a|,|b|) (documented formula, abs_tol = 0)",
                       "expected arguments of surviving consumers are recomputed independently with torch.fx-agnostic recursion over tuples/lists/dicts/slices"]
    rep.trusted = ["TorchDynamo capture + real track_scales for the skeletons", "z3 for path feasibility and rule obligations"]
    rep.sample({"harness": "same_scale[views,bwd=True,rtol=sym]", "obligation": "neg removed => same scale as the node it is bypassed to (linear)"})


def replay(data: Dict[str, Any]) -> Tuple[bool, str]:
    k = data.get("kind")
    if k == "non_float":
        bad = concrete_non_float(data["module"], data["backward"])
        return bool(bad), "; ".join(bad or ["ok"])
    if k == "same_concrete":
        bad = concrete_same_scale(data["module"], data["backward"], data["rtol"])
        return bool(bad), "; ".join(bad or ["ok"])
    info = data.get("info") or {}
    if "rtol" in info:
        return replay_same(data["obligation"], data["model"], info)
    return replay_selected(data["obligation"], data["model"], info)
