"""C14 - stochastic rounding: the real quantise with the random draw as a symbolic bit-vector (engine B)."""
from __future__ import annotations

from typing import Any, Dict, List, Tuple

from ..fpbits.claims import concrete_eval, stochastic_task, _task
from ..par import run_tasks
from ..report import Report

CLAIMS = ["neighbour", "repr", "fixed", "monotone_r", "below_lo", "above_hi", "always_down", "always_up", "odd"]
STRUCT = ["no_error", "shape_dtype", "unmodified", "elementwise"]


def run(rep: Report, only: str = "") -> None:
    thorough = rep.tier == "thorough"
    timeout = 600 if thorough else 170
    if thorough:
        formats = [(E, M) for E in range(2, 8) for M in range(0, 11)]
        srb = lambda M: [0] + [s for s in range(1, 13) if s <= 23 - M]
    else:
        formats = [(4, 3), (5, 2), (2, 1), (3, 0), (2, 0), (7, 10), (5, 10), (6, 7)]
        srb = lambda M: [0, 1, 4, 12]
    tasks = []
    for (E, M) in formats:
        for s in srb(M):
            for c in CLAIMS:
                tasks.append((stochastic_task, (E, M, s, c, timeout)))
            for c in STRUCT:
                for shape in ((3,), (), (2, 3), (0,)):
                    tasks.append((_task, (E, M, "stochastic", s, c, timeout, "float32", shape)))
    if only:
        tasks = [t for t in tasks if only in repr(t[1])]
    rep.extend(run_tasks(tasks))
    rep.bounds = {
        "formats": [f"E{E}M{M}" for E, M in formats], "srbits": "0 (= all 23-M discarded bits) and " + str(sorted(set(srb(0)) - {0})),
        "input": "every float32 bit pattern except NaN (thresholds: non-saturating inputs) x every value of the random draw in [0, 2^srbits)",
        "per_query_timeout_s": timeout,
        "probability_claim": "with T = 2^s(1-p), p the exact fractional position: draws r < T - 1/2 give lo and draws r > T - 1/2 give hi "
                             "(s < 23-M; i.e. the count of rounding-up draws is within 1/2 of 2^s p), r < T give lo and r >= T give hi when s = 23-M (exact); "
                             "in the format-subnormal range both thresholds are relaxed by 2^s 2^(M-24) (float32 RNE of the down-scaling); plus monotone in r",
        "outside": "statistical independence of torch.randint's elements (checked structurally: one draw per element, called once with x.shape)",
    }
    rep.trusted = ["z3 FP/BV theories", "torch meta tensors for shape/dtype", "vf/fpbits/btensor.py handlers"]
    rep.assumptions = ["torch.randint(0, 2^srbits, x.shape) is uniform and independent per element (environment stub: fresh symbolic draw)"]
    rep.stubs = ["torch.randint -> fresh BitVec draw constrained to [0, 2^srbits)"]
    rep.sample({"obligation": "E4M3-stochastic-sr4/float32[3]/below_lo",
                "smt": "forall x, r: r*u < 2^s (u - (n - lo)) - u/2  =>  n(Q(x, r)) == lo"})


def replay(data: Dict[str, Any]) -> Tuple[bool, str]:
    holds, desc = concrete_eval(data["E"], data["M"], data["rounding"], data["srbits"], data["claim"],
                                {k: int(v) for k, v in data["witness"].items()}, data.get("dtype", "float32"),
                                tuple(data.get("shape", [3])))
    return (not holds), desc
