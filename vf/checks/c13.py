"""C13 - nearest-rounding quantisation: the real FPFormat.quantise bit kernel as a z3 FP/BV term,
checked against an exact fixed-point oracle for every float32 bit pattern (engine B)."""
from __future__ import annotations

from typing import Any, Dict, List, Tuple

import z3

from ..fpbits.claims import concrete_eval, nearest_task
from ..fpbits.encode import Oracle, f32_bits
from ..par import run_tasks
from ..report import CONCRETE, INCONCLUSIVE, PROVED, Report
from ..smt import check

QUICK_FORMATS = [(4, 3), (5, 2), (2, 1), (3, 0), (2, 0), (8, 0), (7, 10), (5, 10), (8, 7), (8, 23), (3, 22), (6, 16), (7, 23)]
CLAIMS = ["repr", "neighbour", "nearest_tol", "fixed", "idempotent", "odd", "monotone", "always_down", "always_up"]
STRUCT = ["no_error", "shape_dtype", "unmodified", "elementwise"]
SHAPES = [(3,), (), (0,), (2, 3)]


def _dtype_ok(E: int, M: int, dtype: str) -> bool:
    """formats whose values are exactly representable in the tensor dtype (the property's restriction)."""
    emax, emin = 2 ** (E - 1) - 1, 1 - 2 ** (E - 1)
    if dtype == "float64":
        return True
    if dtype == "bfloat16":
        return M <= 7 and emin - M >= -133
    if dtype == "float16":
        return M <= 10 and emax <= 15 and emin - M >= -24
    return True


def range_task(E: int, M: int) -> List[Dict[str, Any]]:
    """max / min-normal / min-subnormal properties of the real FPFormat = extremes of the oracle's value set."""
    from fractions import Fraction
    from unit_scaling.formats import FPFormat

    fmt = FPFormat(E, M, "nearest")
    orc = Oracle(E, M)
    recs: List[Dict[str, Any]] = []
    name = f"E{E}M{M}/range"
    if E == 8 and M == 23:
        pass
    x = z3.BitVec("v", 32)
    rep = z3.And(orc.e(x) != 255, _rep_free(orc, x))
    n = orc.n_raw(x)

    def fx(v: float) -> int:
        f = Fraction(v) / Fraction(2) ** orc.unit
        assert f.denominator == 1, (v, f)
        return f.numerator

    tot = 0.0
    ok = True
    detail = {}
    for prop, val, cmp in (("max_absolute_value", fmt.max_absolute_value, "le"),
                           ("min_absolute_normal", fmt.min_absolute_normal, "normal_ge"),
                           ("min_absolute_subnormal", fmt.min_absolute_subnormal, "nonzero_ge")):
        try:
            nv = fx(val)
        except AssertionError:
            ok = False
            detail[prop] = f"{val!r} is not on the fixed-point grid"
            continue
        c = z3.BitVecVal(nv, orc.W)
        if cmp == "le":
            dom, goal = [rep], z3.ULE(n, c)
        elif cmp == "normal_ge":
            dom, goal = [rep, z3.UGE(n, z3.BitVecVal(orc.nminnormal, orc.W))], z3.UGE(n, c)
        else:
            dom, goal = [rep, n != 0], z3.UGE(n, c)
        if E == 8:  # float32 cannot hold every member of an E8 format; witness space = float32 members
            pass
        st, model, secs = check(dom + [z3.Not(goal)], 60)
        # attained: the value itself is a member (when it is a float32)
        st2, _, secs2 = check([rep, n == c], 60)
        tot += secs + secs2
        attain_ok = st2 == "sat" or (E == 8)
        detail[prop] = {"value": val, "bound": st, "attained": st2}
        if st != "unsat" or not attain_ok:
            ok = False
    if ok:
        recs.append({"type": "obligation", "name": name, "status": PROVED, "secs": tot, "detail": detail, "queries": 6})
    else:
        # concrete confirmation: compare with exact rationals
        emax, emin = 2 ** (E - 1) - 1, 1 - 2 ** (E - 1)
        exp = {"max_absolute_value": Fraction(2) ** emax * (2 - Fraction(1, 2 ** M)),
               "min_absolute_normal": Fraction(2) ** emin, "min_absolute_subnormal": Fraction(2) ** (emin - M)}
        bad = {k: (getattr(fmt, k), float(v)) for k, v in exp.items() if Fraction(getattr(fmt, k)) != v}
        if bad:
            recs.append({"type": "violation", "key": f"C13/{name}", "what": f"range properties differ from the value set extremes: {bad}",
                         "replay": {"kind": "range", "E": E, "M": M}})
        else:
            recs.append({"type": "obligation", "name": name, "status": INCONCLUSIVE, "secs": tot, "detail": detail})
    return recs


def _rep_free(orc: Oracle, x: Any) -> Any:
    """membership in V(E,M) written without reference to the library's absmax: exponent range + grid."""
    W = orc.W
    n = orc.n_raw(x)
    top = z3.BitVecVal(1 << (orc.emax + 1 - orc.unit), W)
    u = orc.spacing(x)
    small = z3.ULT(z3.ZeroExt(W - 8, orc.e(x)), orc.emax + 1 + 127)
    return z3.And(small, z3.ULT(n, top), (n & (u - 1)) == 0)


def run(rep: Report, only: str = "") -> None:
    thorough = rep.tier == "thorough"
    formats = [(E, M) for E in range(2, 9) for M in range(0, 24)] if thorough else QUICK_FORMATS
    timeout = 600 if thorough else 170
    tasks = []
    for (E, M) in formats:
        for c in CLAIMS:
            if c.startswith("always_") and (E, M) == (8, 23):
                continue  # lossless format: every float32 in the domain is on the grid, no control witness exists
            tasks.append((nearest_task, (E, M, c, timeout)))
        tasks.append((range_task, (E, M)))
    # dtype / rank / emptiness axis (structural + value obligations on the converted input)
    dformats = formats if thorough else [(4, 3), (5, 2), (2, 1), (8, 7), (7, 10), (4, 7), (7, 7), (3, 7), (4, 10), (3, 10), (5, 10), (2, 0)]
    for (E, M) in dformats:
        for dtype in ("float32", "float64", "bfloat16", "float16"):
            if not _dtype_ok(E, M, dtype):
                continue
            for shape in SHAPES:
                for c in STRUCT:
                    tasks.append((nearest_task, (E, M, c, timeout, dtype, shape)))
            if dtype != "float32":
                for c in ("repr", "neighbour", "nearest_tol"):
                    tasks.append((nearest_task, (E, M, c, timeout, dtype, (3,))))
    if only:
        tasks = [t for t in tasks if only in repr(t[1])]
    # slow formats first
    tasks.sort(key=lambda t: -(t[1][0] * 30 + t[1][1]) if isinstance(t[1][1], int) else 0)
    rep.extend(run_tasks(tasks))
    rep.bounds = {
        "formats": [f"E{E}M{M}" for E, M in formats],
        "input": "every float32 bit pattern except NaN (|x| < 2^126 when E = 8), +-0 and +-inf included; "
                 "pairs of inputs for monotonicity; float64/bfloat16/float16 inputs: every bit pattern of that dtype",
        "shapes": [list(s) for s in SHAPES], "per_query_timeout_s": timeout,
        "outside": "stride semantics of non-contiguous inputs (pipeline shown structurally element-wise instead); NaN inputs; devices other than CPU",
    }
    rep.trusted = ["z3 FP/BV theories as the semantics of IEEE-754 RNE arithmetic, conversions and two's-complement int32 ops",
                   "torch meta tensors for result shape/dtype/promotion and error behaviour",
                   "vf/fpbits/btensor.py handlers (SMT semantics of clip, /, *, view(dtype), +, &, ~, <<, to)"]
    rep.assumptions = ["one representative element stands for every element: the pipeline is checked to consist of element-wise, shape-preserving ops only",
                       "oracle: exact fixed-point value set V(E,M) (vf/fpbits/encode.py:Oracle), independent of the library's bit trick"]
    rep.stubs = ["torch.randint -> fresh BitVec draw", "torch elementwise ops -> z3 FP/BV terms"]
    rep.sample({"obligation": "E4M3-nearest/float32[3]/neighbour", "smt": "forall x:BitVec32, not NaN: in_range(Q(x)) and (n(Q(x)) == lo(x) or n(Q(x)) == hi(x))"})


def replay(data: Dict[str, Any]) -> Tuple[bool, str]:
    if data.get("kind") == "range":
        recs = range_task(data["E"], data["M"])
        bad = [r for r in recs if r.get("type") == "violation"]
        return bool(bad), str(bad or "range ok")
    holds, desc = concrete_eval(data["E"], data["M"], data["rounding"], data["srbits"], data["claim"],
                                {k: int(v) for k, v in data["witness"].items()}, data.get("dtype", "float32"),
                                tuple(data.get("shape", [3])))
    return (not holds), desc
