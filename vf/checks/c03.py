"""C03 - exact unit scale of (bi)linear ops at initialisation: factor^2 * (#unit-variance terms) = 1 for all shapes."""
from __future__ import annotations

from typing import Any, Dict, List, Tuple

import torch

from ..par import run_tasks
from ..report import CONCRETE, INCONCLUSIVE, Report
from . import funcops as fo
from .c01 import common_meta

OPS = ["linear", "linear_readout", "matmul", "conv1d", "add", "embedding", "dropout", "mse_loss", "layer_norm", "rms_norm"]


def validate_terms(cfg: Dict[str, Any]) -> List[Dict[str, Any]]:
    """Stub-contract validation: the symbolic term-count formula, evaluated at sample dims, against the count measured
    by running the PyTorch reference on all-ones tensors (the property's own oracle)."""
    from ..sym.scalar import Ctx, SInt, SReal
    import z3
    torch.set_num_threads(1)
    model: Dict[str, Any] = {}
    with Ctx() as c:
        mk = fo.SymMk(c)
        from ..sym.tensor import Session
        with Session():
            call = fo.SPECS[cfg["op"]](mk, cfg)
        samples = dict(c.samples)
        sym = {}
        for n, v in call.terms.items():
            if isinstance(v, SInt):
                sym[n] = float(v.sample)
            elif isinstance(v, SReal):
                s = z3.Solver()
                s.add(*[c.dims[k] == val for k, val in samples.items() if k in c.dims])
                for k, rv in c.reals.items():
                    s.add(rv == z3.Q(3, 10))
                s.add(*c.defs)
                s.check()
                val = s.model().eval(v.z, model_completion=True)
                sym[n] = float(val.as_fraction()) if z3.is_rational_value(val) else float(val.approx(20).as_fraction())
            else:
                sym[n] = float(v)
    model = {k: v for k, v in samples.items()}
    model.update({"p": 0.3, "eps": 0.3, "mult": 0.3})
    meas = fo.measure_terms(cfg, model)
    bad = {n: (sym[n], meas.get(n)) for n in sym if n in meas and meas[n] == meas[n] and abs(sym[n] - meas[n]) > 1e-9 * max(1, abs(meas[n]))}
    name = f"terms-contract/{fo.cfg_name(cfg)}"
    if bad:
        return [{"type": "obligation", "name": name, "status": INCONCLUSIVE, "queries": 0,
                 "detail": f"term-count contract disagrees with the all-ones measurement at {model}: {bad}"}]
    return [{"type": "obligation", "name": name, "status": CONCRETE, "queries": 0, "kind": "contract-validation",
             "detail": {"sample_dims": samples, "terms": sym, "measured_all_ones": meas}}]


def run(rep: Report, only: str = "") -> None:
    timeout = 120 if rep.tier == "thorough" else 40
    tasks = []
    for op in OPS:
        for cfg in fo.configs(op, rep.tier):
            if cfg.get("constraint") is None:
                tasks.append((fo.run_config, ("C03", cfg, ["C03"], timeout)))
                tasks.append((validate_terms, (cfg,)))
    if only:
        tasks = [t for t in tasks if only in repr(t[1])]
    rep.extend(run_tasks(tasks))
    rep.functions = fo.encoded_functions()
    common_meta(rep)
    rep.bounds["terms"] = ("term counts are stub contracts written from each op's definition (fan_in; fan_out; batch; inner/outer matmul sizes; C_in/groups*k; "
                           "batch*L_out without padding; (C_out/groups)*k/stride averaged over one stride period of interior positions; broadcast sizes; 1/(1-p); 8; "
                           "rows; batch/vocab) and validated on every run against the PyTorch reference run on all-ones tensors at the sample dims")
    rep.bounds["residual"] = "residual_split/residual_add mixing weights: see C06"
    rep.sample({"harness": "conv1d[rank=1,bias=True,constraint=None,dtype=float32,padding=False]", "obligation": "unit scale[w]: factor^2 * terms = 1",
                "meaning": "(1/sqrt(batch*L_out))^2 * batch*L_out = 1 with L_out = floor((L - d(k-1) - 1)/s) + 1, for all L, d, k, s, batch dims"})


def replay(data: Dict[str, Any]) -> Tuple[bool, str]:
    return fo.replay_functional(data["obligation"], data["model"], data.get("info") or {})
