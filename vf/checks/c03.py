"""C03 - exact unit scale of (bi)linear ops at initialisation: factor^2 * (#unit-variance terms) = 1 for all shapes."""
from __future__ import annotations

from typing import Any, Dict, List, Tuple

import torch

from ..par import run_tasks
from ..report import CONCRETE, INCONCLUSIVE, Report
import z3

from ..sym.runner import discharge
from ..sym.scalar import Ctx, approx
from ..sym.tensor import Session, STensor
from . import funcops as fo
from .c01 import common_meta

OPS = ["linear", "linear_readout", "matmul", "conv1d", "add", "embedding", "dropout", "mse_loss", "layer_norm", "rms_norm"]


def validate_terms(cfg: Dict[str, Any]) -> List[Dict[str, Any]]:
    """Stub-contract validation: the symbolic term-count formula, evaluated at sample dims, against the count measured
    by running the PyTorch reference on all-ones tensors (the property's own oracle)."""
    from ..sym.scalar import Ctx, SInt, SReal
    import z3
    torch.set_num_threads(1)
    model: Dict[str, Any] = {}
    with Ctx() as c:
        mk = fo.SymMk(c)
        from ..sym.tensor import Session
        with Session():
            call = fo.SPECS[cfg["op"]](mk, cfg)
        samples = dict(c.samples)
        sym = {}
        for n, v in call.terms.items():
            if isinstance(v, SInt):
                sym[n] = float(v.sample)
            elif isinstance(v, SReal):
                s = z3.Solver()
                s.add(*[c.dims[k] == val for k, val in samples.items() if k in c.dims])
                for k, rv in c.reals.items():
                    s.add(rv == z3.Q(3, 10))
                s.add(*c.defs)
                s.check()
                val = s.model().eval(v.z, model_completion=True)
                sym[n] = float(val.as_fraction()) if z3.is_rational_value(val) else float(val.approx(20).as_fraction())
            else:
                sym[n] = float(v)
    model = {k: v for k, v in samples.items()}
    model.update({"p": 0.3, "eps": 0.3, "mult": 0.3})
    meas = fo.measure_terms(cfg, model)
    bad = {n: (sym[n], meas.get(n)) for n in sym if n in meas and meas[n] == meas[n] and abs(sym[n] - meas[n]) > 1e-9 * max(1, abs(meas[n]))}
    name = f"terms-contract/{fo.cfg_name(cfg)}"
    if bad:
        return [{"type": "obligation", "name": name, "status": INCONCLUSIVE, "queries": 0,
                 "detail": f"term-count contract disagrees with the all-ones measurement at {model}: {bad}"}]
    return [{"type": "obligation", "name": name, "status": CONCRETE, "queries": 0, "kind": "contract-validation",
             "detail": {"sample_dims": samples, "terms": sym, "measured_all_ones": meas}}]


# ------------------------------------------------------------------------------------------ the same weight, another batch size
# A layer's weight is reused call after call while the batch changes: the exact-unit-scale factors of the later call (the weight and bias
# gradient scale depends on the batch size) must be those of that call in a fresh state.  No formula is assumed.
def h_same_weight(readout: bool):
    from .c05 import _factors

    def h(c: Ctx) -> None:
        import unit_scaling.functional as U
        import torch.nn.functional as F
        n1, n2, a, b = c.dim("n1", 2, 2 ** 20, sample=3), c.dim("n2", 2, 2 ** 20, sample=7), c.dim("a", 2, 2 ** 20, sample=5), c.dim("b", 2, 2 ** 20, sample=4)
        info = {"history": "same-weight", "readout": readout}
        fn = U.linear_readout if readout else U.linear

        def mkt(name: str, shape: Tuple[Any, ...]) -> STensor:
            return STensor.leaf(name, shape, torch.float32, requires_grad=True)

        def call(x: STensor, w: STensor, bias: STensor) -> Tuple[Any, Any, Dict[str, Any]]:
            return (lambda k: fn(x, w, bias, None)), (lambda: F.linear(x, w, bias)), {"x": x, "w": w, "b": bias}

        with Session():
            w, bias = mkt("w", (b, a)), mkt("bias", (b,))
            lib0, ref0, lv0 = call(mkt("x_first", (n1, a)), w, bias)
            _factors(c, lib0, ref0, lv0, None, "first")
            lib1, ref1, lv1 = call(mkt("x_second", (n2, a)), w, bias)
            after = _factors(c, lib1, ref1, lv1, None, "second-after-first")
        with Session():
            lib1, ref1, lv1 = call(mkt("x_second'", (n2, a)), mkt("w'", (b, a)), mkt("bias'", (b,)))
            alone = _factors(c, lib1, ref1, lv1, None, "second-alone")
        for key in alone:
            c.oblige(f"{key} factor of a later call with the same weight and another batch size is that of a fresh call", after[key] == alone[key],
                     info={**info, "claim": key}, tol=approx(after[key], alone[key]))
        c.oblige("control: later call keeps the first call's weight-gradient factor although the batch differs (must be sat)", z3.And(after["grad[w]"] == alone["grad[w]"] * 2), kind="control")

    return h


_SAME_WEIGHT_SCRIPT = r'''
import json, sys, torch
import torch.nn.functional as F
import unit_scaling.functional as U
readout, n1, n2, a, b, both = json.loads(sys.argv[1])
fn = U.linear_readout if readout else U.linear
g = torch.Generator().manual_seed(11)
w = torch.randn(b, a, generator=g, dtype=torch.float64, requires_grad=True)
bias = torch.randn(b, generator=g, dtype=torch.float64, requires_grad=True)
def call(n):
    x = torch.randn(n, a, generator=g, dtype=torch.float64, requires_grad=True)
    y, yr = fn(x, w, bias, None), F.linear(x, w, bias)
    G = torch.randn(y.shape, generator=g, dtype=torch.float64)
    res = {"fwd": float((y.detach() * yr.detach()).sum() / (yr.detach() ** 2).sum())}
    gl = torch.autograd.grad(y, [x, w, bias], G)
    gr = torch.autograd.grad(yr, [x, w, bias], G)
    for nm, u, v in zip(("x", "w", "b"), gl, gr):
        res["grad[%s]" % nm] = float((u * v).sum() / (v ** 2).sum())
    return res
if both:
    call(n1)
print(json.dumps(call(n2)))
'''


def replay_same_weight(obname: str, model: Dict[str, Any], info: Any) -> Tuple[bool, str]:
    import json
    import os
    import subprocess
    import sys
    n1, n2, a, b = (min(int(model.get(k, d)), 64) for k, d in (("n1", 3), ("n2", 7), ("a", 5), ("b", 4)))
    if n1 == n2:
        n2 = n1 + 1
    res = []
    for both in (False, True):
        p = subprocess.run([sys.executable, "-c", _SAME_WEIGHT_SCRIPT, json.dumps([bool(info.get("readout")), n1, n2, a, b, both])],
                           capture_output=True, text=True, timeout=600, env=dict(os.environ))
        if p.returncode != 0:
            return both, f"same-weight history replay raises: {p.stderr.strip().splitlines()[-1] if p.stderr.strip() else p.returncode}"
        res.append(json.loads(p.stdout.strip().splitlines()[-1]))
    alone, after = res
    bad = [f"{k}: {after[k]!r} after a call with batch {n1}, {alone[k]!r} in a fresh process" for k in alone if abs(after[k] - alone[k]) > 1e-9 * max(abs(alone[k]), 1e-300)]
    return bool(bad), f"{'linear_readout' if info.get('readout') else 'linear'} with one weight [{b},{a}], batch {n1} then {n2}: " + "; ".join(bad or ["same factors"])


def task_same_weight(readout: bool, timeout: float) -> List[Dict[str, Any]]:
    torch.set_num_threads(1)
    return discharge("C03", f"history[{'linear_readout' if readout else 'linear'}, same weight, another batch]", h_same_weight(readout), replay_same_weight, timeout,
                     base_info={"history": "same-weight", "readout": readout}, skip_definedness=True)


def run(rep: Report, only: str = "") -> None:
    timeout = 120 if rep.tier == "thorough" else 40
    tasks = []
    for op in OPS:
        for cfg in fo.configs(op, rep.tier):
            if cfg.get("constraint") is None:
                tasks.append((fo.run_config, ("C03", cfg, ["C03"], timeout)))
                tasks.append((validate_terms, (cfg,)))
    tasks += [(task_same_weight, (False, timeout)), (task_same_weight, (True, timeout))]
    if only:
        tasks = [t for t in tasks if only in repr(t[1]) or only in t[0].__name__]
    rep.extend(run_tasks(tasks))
    rep.functions = fo.encoded_functions()
    common_meta(rep)
    rep.bounds["history"] = ("linear / linear_readout called twice with the SAME weight and bias objects and another batch size (all sizes symbolic): every factor of the "
                             "later call equals that of the call in a fresh library state; replay in two clean processes")
    rep.bounds["terms"] = ("term counts are stub contracts written from each op's definition (fan_in; fan_out; batch; inner/outer matmul sizes; C_in/groups*k; "
                           "batch*L_out without padding; (C_out/groups)*k/stride averaged over one stride period of interior positions; broadcast sizes; 1/(1-p); 8; "
                           "rows; batch/vocab) and validated on every run against the PyTorch reference run on all-ones tensors at the sample dims")
    rep.bounds["residual"] = "residual_split/residual_add mixing weights: see C06"
    rep.sample({"harness": "conv1d[rank=1,bias=True,constraint=None,dtype=float32,padding=False]", "obligation": "unit scale[w]: factor^2 * terms = 1",
                "meaning": "(1/sqrt(batch*L_out))^2 * batch*L_out = 1 with L_out = floor((L - d(k-1) - 1)/s) + 1, for all L, d, k, s, batch dims"})


def replay(data: Dict[str, Any]) -> Tuple[bool, str]:
    if (data.get("info") or {}).get("history") == "same-weight":
        return replay_same_weight(data["obligation"], data["model"], data.get("info") or {})
    return fo.replay_functional(data["obligation"], data["model"], data.get("info") or {})
