"""C17 - transforms are non-destructive and compose in any order (engine G, partial: TorchDynamo caching/compile outside).

* _order_backends executed on lists whose backend kinds are solver-selected symbols (path forking in the real code).
* For every order of {unit_scale, one format simulation} (+ trailing track_scales) on a family of small modules: the REAL
  top-level functions run through TorchDynamo; the graphs produced by the two orders are interpreted symbolically and
  unified (all data, all dims, equal parameters); each library backend is applied exactly once per chain - also when an
  intermediate module has already been called before the next transform is nested.
* Concrete side conditions on real objects (labelled): original state_dict bit-identical, no shared storage, original's
  outputs/gradients unchanged, backends list of the input not mutated, repeated calls equal."""
from __future__ import annotations

import copy
import itertools
from typing import Any, Callable, Dict, List, Optional, Tuple

import torch
import z3
from torch import nn

from ..fxsym import interp as ix
from ..fxsym.capture import capture
from ..fxsym.programs import build, spec_name
from ..par import run_tasks
from ..report import CONCRETE, INCONCLUSIVE, Report, describe_function, lazy
from ..sym.runner import discharge
from ..sym.scalar import Ctx, SBool
from ..sym.tensor import Session, STensor
from .c06 import _eq_lc
from .c15 import FORMATS, QuantSession, mkfmt
from .c16 import _plain, _unplain

KINDS = ["unit_scaling_backend", "quantisation_backend", "other"]


class SymName:
    """__qualname__ of a backend whose kind is chosen by the solver: `"unit_scaling_backend" in name` forks the path"""

    def __init__(self, sel: Any, idx: int):
        self.sel, self.idx = sel, idx

    def __contains__(self, sub: str) -> Any:
        if sub in KINDS[:2]:
            return bool(SBool(self.sel == KINDS.index(sub)))
        return False


class FakeBackend:
    def __init__(self, sel: Any, idx: int):
        self.__qualname__ = SymName(sel, idx)
        self.idx = idx


def h_order(n: int):
    def h(c: Ctx) -> None:
        from unit_scaling.transforms._unit_scale import _order_backends
        sels = [z3.Int(f"kind{i}") for i in range(n)]
        for i, s in enumerate(sels):
            c.assumes += [s >= 0, s <= 2]
            c.extra_vars[f"kind{i}"] = s
        # at most one unit-scaling and one quantisation backend (each transform used at most once)
        for k in (0, 1):
            c.assumes.append(z3.Sum([z3.If(s == k, 1, 0) for s in sels]) <= 1)
        bs = [FakeBackend(s, i) for i, s in enumerate(sels)]
        before = list(bs)
        _order_backends(bs)
        info = {"n": n}
        pos = {b.idx: i for i, b in enumerate(bs)}
        c.oblige("same backends (multiset preserved)", z3.BoolVal(sorted(b.idx for b in bs) == list(range(n)) and len(bs) == n), info={**info, "claim": "order"})
        # unit scaling precedes quantisation whenever both are present
        cl = []
        for i in range(n):
            for j in range(n):
                if i != j:
                    cl.append(z3.Implies(z3.And(sels[i] == 0, sels[j] == 1), z3.BoolVal(pos[i] < pos[j])))
        c.oblige("unit scaling precedes quantisation", z3.And(cl) if cl else z3.BoolVal(True), info={**info, "claim": "order"})
        # relative order of everything except the unit-scaling backend is preserved
        cl2 = []
        for i in range(n):
            for j in range(i + 1, n):
                cl2.append(z3.Implies(z3.And(sels[i] != 0, sels[j] != 0), z3.BoolVal(pos[i] < pos[j])))
        c.oblige("relative order of the other backends preserved", z3.And(cl2) if cl2 else z3.BoolVal(True), info={**info, "claim": "order"})

    return h


def replay_order(obname: str, model: Dict[str, Any], info: Any) -> Tuple[bool, str]:
    from unit_scaling.transforms._unit_scale import _order_backends
    n = info["n"]
    kinds = [int(model.get(f"kind{i}", 2)) for i in range(n)]

    def mk(k: int, i: int) -> Any:
        def f(gm: Any, ex: Any) -> Any:
            return gm
        f.__qualname__ = f"{KINDS[k]}.<locals>.inner{i}"
        f.idx = i  # type: ignore[attr-defined]
        return f

    bs = [mk(k, i) for i, k in enumerate(kinds)]
    _order_backends(bs)
    order = [b.idx for b in bs]
    ks = [kinds[i] for i in order]
    bad = []
    if sorted(order) != list(range(n)):
        bad.append("backends lost or duplicated")
    if 0 in ks and 1 in ks and ks.index(0) > ks.index(1):
        bad.append("quantisation before unit scaling")
    rest = [i for i in order if kinds[i] != 0]
    if rest != sorted(rest):
        bad.append("other backends reordered")
    return bool(bad), f"_order_backends on kinds {[KINDS[k] for k in kinds]} -> order {order}: " + "; ".join(bad or ["ok"])


def task_order(n: int) -> List[Dict[str, Any]]:
    return discharge("C17", f"_order_backends[n={n}]", h_order(n), replay_order, 20, max_paths=2000, base_info={"n": n})


# ------------------------------------------------------------------------------------------ module family and chains
class ResBlock(nn.Module):
    def __init__(self) -> None:
        super().__init__()
        self.l1, self.l2, self.ln = nn.Linear(5, 7), nn.Linear(7, 5), nn.LayerNorm(5)

    def forward(self, x: torch.Tensor) -> torch.Tensor:
        return x + self.l2(torch.nn.functional.gelu(self.l1(self.ln(x))))


class AttnBlock(nn.Module):
    def __init__(self) -> None:
        super().__init__()
        self.q, self.o = nn.Linear(5, 5), nn.Linear(5, 5, bias=False)

    def forward(self, x: torch.Tensor) -> torch.Tensor:
        h = self.q(x)
        return x + self.o(torch.nn.functional.scaled_dot_product_attention(h, h, h))


class Mlp(nn.Module):
    def __init__(self) -> None:
        super().__init__()
        self.a, self.b = nn.Linear(5, 11), nn.Linear(11, 7)

    def forward(self, x: torch.Tensor) -> torch.Tensor:
        return self.b(torch.tanh(self.a(x)))


class Buffered(nn.Module):
    """a module that owns buffers (a float one on the computation path, an integer counter off it): 'no storage is shared with the result'
    speaks of buffers as much as of parameters"""

    def __init__(self) -> None:
        super().__init__()
        self.l = nn.Linear(5, 5)
        self.register_buffer("gate", torch.randn(5))
        self.register_buffer("steps", torch.zeros((), dtype=torch.long))

    def forward(self, x: torch.Tensor) -> torch.Tensor:
        return self.l(x) * torch.sigmoid(self.gate)


def family() -> Dict[str, Callable[[], nn.Module]]:
    import unit_scaling as uu
    return {"mlp": Mlp, "residual": ResBlock, "attention": AttnBlock, "uu.MLP": lambda: uu.MLP(5, 2), "buffered": Buffered}


def example(name: str) -> List[torch.Tensor]:
    return [torch.randn(2, 3, 5, generator=torch.Generator().manual_seed(3))]


def chain(order: Tuple[str, ...], fkey: str, precall: bool = False, x: Optional[List[torch.Tensor]] = None) -> Callable[[nn.Module], nn.Module]:
    from unit_scaling.transforms import simulate_format, track_scales, unit_scale
    f, b = FORMATS[fkey]

    def t(m: nn.Module) -> nn.Module:
        for step in order:
            if step == "unit_scale":
                m = unit_scale(m)
            elif step == "simulate":
                m = simulate_format(m, mkfmt(f), mkfmt(b))
            elif step == "track":
                m = track_scales(m)
            if precall and x is not None and step != order[-1]:
                torch._dynamo.reset()
                m(*[v.clone() for v in x])  # the intermediate module is used before the next transform is nested
        return m

    return t


def harness_orders(mname: str, fkey: str, capA: Any, capB: Any):
    def h(c: Ctx) -> None:
        info = {"module": mname, "formats": fkey}
        table = ix.size_symbols(c) if not (ix.has_hop(capA.original) or ix.has_hop(capB.original)) else {}
        with Session(), QuantSession():
            import unit_scaling.transforms._simulate_format as sf
            from ..sym.tensor import TF
            sf_F = sf.F
            sf.F = TF
            try:
                leaves = ix.leaves_for(c, capA.original, capA.example_inputs, table)
                namesB = [str(n.target) for n in capB.original.graph.nodes if n.op == "placeholder"]
                c.oblige("both orders see the same graph inputs", z3.BoolVal(sorted(namesB) == sorted(leaves)), info={**info, "claim": "orders"})
                outs, grads = [], []
                for cap in (capA, capB):
                    out = ix.SymInterp(cap.rewritten, leaves).run_symbolic()
                    out = out[0] if isinstance(out, (tuple, list)) else out
                    G = STensor.leaf("G", out.shape, out.dtype)
                    for t in leaves.values():
                        t.grad = None
                    out.backward(G)
                    outs.append(out)
                    grads.append({k: t.grad for k, t in leaves.items()})
            finally:
                sf.F = sf_F
            _eq_lc(c, "simulate(unit_scale(m)) and unit_scale(simulate(m)) compute the same function", outs[0].lc, outs[1].lc, {**info, "claim": "orders"})
            for k in leaves:
                a, b = grads[0][k], grads[1][k]
                if a is None and b is None:
                    continue
                if a is None or b is None:
                    c.oblige(f"grad[{k}] same in both orders", z3.BoolVal(False), info={**info, "claim": "orders", "mismatch": "missing gradient"})
                else:
                    _eq_lc(c, f"grad[{k}] same in both orders", a, b, {**info, "claim": "orders"})

    return h


def _stage_counts(cap: Any) -> Dict[str, int]:
    out: Dict[str, int] = {}
    for qn, _ in cap.stages:
        k = "unit_scaling_backend" if "unit_scaling_backend" in qn else "quantisation_backend" if "quantisation_backend" in qn else "tracking" if "ScaleTracking" in qn else qn
        out[k] = out.get(k, 0) + 1
    return out


def concrete_orders(mname: str, fkey: str, precall: bool) -> Tuple[bool, str]:
    """real pipeline: both orders, optionally calling the intermediate module before nesting; same outputs and gradients
    given equal parameters (nearest rounding: deterministic), every backend applied exactly once, in the right order"""
    mk = family()[mname]
    x = example(mname)
    res = []
    bad = []
    for order in (("unit_scale", "simulate"), ("simulate", "unit_scale")):
        torch.manual_seed(0)
        m = mk()
        cap = capture(chain(order, fkey, precall, x), m, x)
        if cap.error:
            return True, f"{'>'.join(order)}({mname}) fails: {cap.error[:300]}"
        cnt = _stage_counts(cap)
        if cnt.get("unit_scaling_backend", 0) != 1 or cnt.get("quantisation_backend", 0) != 1:
            bad.append(f"{'>'.join(order)}{' (intermediate module called first)' if precall else ''}: backends applied {cnt}, expected each exactly once")
        names = [qn for qn, _ in cap.stages]
        iu = next((i for i, q in enumerate(names) if "unit_scaling_backend" in q), -1)
        iq = next((i for i, q in enumerate(names) if "quantisation_backend" in q), -1)
        if iu >= 0 and iq >= 0 and iu > iq:
            bad.append(f"{'>'.join(order)}: quantisation applied before unit scaling")
        res.append(cap)
    if not bad:
        phs = [n for n in res[0].original.graph.nodes if n.op == "placeholder"]
        base = {str(n.target): ex.detach().clone() for n, ex in zip(phs, res[0].example_inputs)}
        outs = []
        orig_randint = torch.randint

        def pinned(*a: Any, **k: Any) -> torch.Tensor:  # stochastic formats: every draw of both runs comes from the same pinned source
            return orig_randint(*a, generator=torch.Generator().manual_seed(1234), **k)

        for cap in res:
            ph2 = [n for n in cap.original.graph.nodes if n.op == "placeholder"]
            lv = {k: (v.clone().requires_grad_(True) if v.is_floating_point() else v.clone()) for k, v in base.items()}
            torch.randint = pinned  # type: ignore[assignment]
            try:
                o = cap.rewritten(*[lv[str(n.target)] for n in ph2])
                o = o[0] if isinstance(o, (tuple, list)) else o
                gs = torch.autograd.grad(o, [v for v in lv.values() if v.is_floating_point()], torch.ones_like(o), allow_unused=True)
            except KeyError as e:
                return True, f"graph inputs differ between the two orders: {e}"
            finally:
                torch.randint = orig_randint  # type: ignore[assignment]
            outs.append((o, gs))
        if not torch.equal(outs[0][0], outs[1][0]):
            bad.append(f"outputs of the two orders differ (max abs {(outs[0][0] - outs[1][0]).abs().max().item():.3g})")
        for a, b in zip(outs[0][1], outs[1][1]):
            if (a is None) != (b is None) or (a is not None and not torch.equal(a, b)):
                bad.append("gradients of the two orders differ")
                break
    return bool(bad), f"{mname}@{fkey}{' precall' if precall else ''}: " + "; ".join(bad or ["orders agree, each backend applied once"])


def replay_orders(obname: str, model: Dict[str, Any], info: Any) -> Tuple[bool, str]:
    return concrete_orders(info["module"], info["formats"], bool(info.get("precall")))


def task_orders(mname: str, fkey: str, precall: bool, timeout: float) -> List[Dict[str, Any]]:
    torch.set_num_threads(1)
    name = f"orders[{mname},{fkey}{',precall' if precall else ''}]"
    recs: List[Dict[str, Any]] = [{"type": "programs", "n": 1}]
    try:
        bad, desc = concrete_orders(mname, fkey, precall)
    except Exception as e:
        return recs + [{"type": "obligation", "name": name + "/real pipeline", "status": INCONCLUSIVE, "queries": 0, "detail": f"{type(e).__name__}: {e}"}]
    if bad:
        recs.append({"type": "violation", "key": f"C17/{name}/real pipeline", "what": desc,
                     "replay": {"info": {"module": mname, "formats": fkey, "precall": precall}, "obligation": "orders", "model": {}}})
        return recs
    recs.append({"type": "obligation", "name": name + "/real pipeline: each backend once, unit scaling first, orders bit-identical", "status": CONCRETE, "queries": 0,
                 "kind": "concrete", "detail": desc})
    if precall:
        return recs
    mk = family()[mname]
    x = example(mname)
    caps = []
    for order in (("unit_scale", "simulate"), ("simulate", "unit_scale")):
        torch.manual_seed(0)
        caps.append(capture(chain(order, fkey), mk(), x))
    recs += discharge("C17", name, harness_orders(mname, fkey, caps[0], caps[1]), replay_orders, timeout,
                      base_info={"module": mname, "formats": fkey}, skip_definedness=True)
    return recs


# ------------------------------------------------------------------------------------------ non-destructive (concrete, labelled)
def task_nondestructive(mname: str, order: Tuple[str, ...], fkey: str) -> List[Dict[str, Any]]:
    torch.set_num_threads(1)
    name = f"non-destructive[{mname},{'>'.join(order)},{fkey}]"
    mk = family()[mname]
    torch.manual_seed(0)
    m = mk()
    x = example(mname)
    y0 = m(*x)
    (y0.sum()).backward()
    g0 = {k: v.grad.clone() for k, v in m.named_parameters()}
    # the original KEEPS its accumulated gradients while it is transformed: they are part of the state a transform must not touch
    sd0 = {k: v.detach().clone() for k, v in m.state_dict().items()}

    def grads(mod: Any) -> Dict[str, Any]:
        return {k: (None if v.grad is None else v.grad.clone()) for k, v in mod.named_parameters()}

    def same_grads(a: Dict[str, Any], b: Dict[str, Any]) -> bool:
        return a.keys() == b.keys() and all((a[k] is None) == (b[k] is None) and (a[k] is None or torch.equal(a[k], b[k])) for k in a)
    bad = []
    cur = m
    try:
        for step in order:
            prev = cur
            prev_backends = list(getattr(prev, "backends", []))
            prev_sd = {k: v.detach().clone() for k, v in prev.state_dict().items()}
            prev_g = grads(prev)
            cur = chain((step,), fkey)(prev)
            if not same_grads(grads(prev), prev_g):
                bad.append(f"{step} changed the accumulated gradients of its input")
            if cur is prev:
                bad.append(f"{step} returned its argument")
            if list(getattr(prev, "backends", [])) != prev_backends:
                bad.append(f"{step} mutated the backends list of its input")
            for k, v in prev.state_dict().items():
                if not torch.equal(v, prev_sd[k]):
                    bad.append(f"{step} changed parameter/buffer {k} of its input")
            ptr = {v.data_ptr() for v in prev.state_dict().values()}
            if any(v.data_ptr() in ptr for v in cur.state_dict().values()):
                bad.append(f"{step} shares storage with its input")
        torch._dynamo.reset()
        xs = [v.clone() for v in x]
        r1 = cur(*xs)
        r1 = r1[0] if isinstance(r1, tuple) else r1
        (r1.sum()).backward()
        r2 = cur(*[v.clone() for v in x])
        r2 = r2[0] if isinstance(r2, tuple) else r2
        if FORMATS[fkey][0][2] == "nearest" and not torch.equal(r1, r2):
            bad.append("transformed module gives different results on repeated calls")
    except Exception as e:
        bad.append(f"raised {type(e).__name__}: {str(e)[:200]}")
    finally:
        torch._dynamo.reset()
    for k, v in m.state_dict().items():
        if not torch.equal(v, sd0[k]):
            bad.append(f"original {k} changed")
    if not same_grads(grads(m), g0):
        bad.append("transforming / running the transformed module changed the gradients held by the original")
    m.zero_grad()
    y1 = m(*x)
    (y1.sum()).backward()
    if not torch.equal(y0, y1) or any(not torch.equal(g0[k], v.grad) for k, v in m.named_parameters()):
        bad.append("original's outputs/gradients changed")
    if bad:
        return [{"type": "violation", "key": f"C17/{name}", "what": "; ".join(bad[:4]),
                 "replay": {"kind": "nondestructive", "module": mname, "order": list(order), "formats": fkey}}]
    return [{"type": "obligation", "name": name, "status": CONCRETE, "queries": 0, "kind": "concrete",
             "detail": "original state_dict bit-identical, no shared storage, backends list untouched, original outputs/gradients unchanged, repeated calls equal"}]


def task_retrace(mname: str, order: Tuple[str, ...], fkey: str) -> List[Dict[str, Any]]:
    """repeated calls that force TorchDynamo to re-trace (grad mode switch, other batch size): every re-trace must apply every
    library backend again, and the result must equal that of a freshly transformed copy with the same state"""
    torch.set_num_threads(1)
    name = f"retrace[{mname},{'>'.join(order)},{fkey}]"
    mk = family()[mname]
    torch.manual_seed(0)
    m = mk()
    x = example(mname)[0]
    bad: List[str] = []
    counts: Dict[str, int] = {}
    try:
        torch._dynamo.reset()
        tm = chain(order, fkey)(m)

        def counted(b: Any, label: str) -> Any:
            def w(gm: Any, ex: Any) -> Any:
                counts[label] = counts.get(label, 0) + 1
                return b(gm, ex)
            w.__qualname__ = getattr(b, "__qualname__", label)
            return w

        labels = []
        for i, b in enumerate(list(tm.backends)):
            qn = getattr(b, "__qualname__", f"backend{i}")
            lab = "unit" if "unit_scaling_backend" in qn else "quant" if "quantisation_backend" in qn else "track" if "ScaleTracking" in str(qn) + type(b).__name__ else f"b{i}"
            labels.append(lab)
            tm.backends[i] = counted(b, lab)

        def probe(gm: Any, ex: Any) -> Any:
            counts["trace"] = counts.get("trace", 0) + 1
            return gm
        probe.__qualname__ = "verif_probe"
        tm.backends.insert(0, probe)
        calls = [("grad-enabled call", lambda: tm(x.clone().requires_grad_(True))),
                 ("call under torch.no_grad()", lambda: _nograd(tm, x)),
                 ("call with another batch size", lambda: tm(torch.cat([x, x[:1]], 0))),
                 ("first input again", lambda: tm(x.clone()))]
        outs = []
        for label, fn in calls:
            before = dict(counts)
            o = fn()
            o = o[0] if isinstance(o, tuple) else o
            outs.append(o.detach().clone())
            dt = counts.get("trace", 0) - before.get("trace", 0)
            for lab in set(labels):
                d = counts.get(lab, 0) - before.get(lab, 0)
                if d != dt * labels.count(lab):
                    bad.append(f"{label}: TorchDynamo traced {dt} graph(s) but backend '{lab}' ran {d} time(s)")
        if FORMATS[fkey][0][2] == "nearest":
            if not torch.equal(outs[0], outs[1]) or not torch.equal(outs[0], outs[3]):
                bad.append("same input gives different results on repeated calls (grad / no_grad / again)")
            torch._dynamo.reset()
            torch.manual_seed(0)
            fresh = chain(order, fkey)(mk())
            fresh.load_state_dict(tm.state_dict())
            of = fresh(torch.cat([x, x[:1]], 0))
            of = of[0] if isinstance(of, tuple) else of
            if not torch.allclose(outs[2], of.detach(), rtol=1e-6, atol=1e-7):
                bad.append(f"re-traced call differs from a freshly transformed copy with the same state (max abs {(outs[2] - of.detach()).abs().max().item():.3g})")
    except Exception as e:
        bad.append(f"raised {type(e).__name__}: {str(e)[:200]}")
    finally:
        torch._dynamo.reset()
    if bad:
        return [{"type": "violation", "key": f"C17/{name}", "what": "; ".join(bad[:4]),
                 "replay": {"kind": "retrace", "module": mname, "order": list(order), "formats": fkey}}]
    return [{"type": "obligation", "name": name, "status": CONCRETE, "queries": 0, "kind": "concrete",
             "detail": f"4 calls (grad, no_grad, other batch, again): traces={counts.get('trace')}, each library backend applied once per trace; results consistent"}]


def _nograd(tm: Any, x: torch.Tensor) -> Any:
    with torch.no_grad():
        return tm(x.clone())


def h_compose(n: int):
    """_compose_backends with uninterpreted backends: each applied exactly once, in list order"""

    def h(c: Ctx) -> None:
        from unit_scaling.transforms.utils import _compose_backends
        calls: List[Tuple[int, Any]] = []

        class GM:
            def __init__(self, tag: Any):
                self.tag = tag
                self._param_name_to_source = "src"

        def mk(i: int) -> Any:
            def b(gm: Any, ex: Any) -> Any:
                calls.append((i, gm.tag))
                return GM((i, gm.tag))
            return b

        out = _compose_backends([mk(i) for i in range(n)])(GM("g0"), [])
        want: Any = "g0"
        for i in range(n):
            want = (i, want)
        c.oblige("backends applied once each, in list order, each on the previous result", z3.BoolVal([i for i, _ in calls] == list(range(n)) and out.tag == want),
                 info={"n": n, "claim": "compose"})

    return h


def task_compose(n: int) -> List[Dict[str, Any]]:
    return discharge("C17", f"_compose_backends[n={n}]", h_compose(n), lambda o, m, i: (True, "compose order"), 10, base_info={"n": n})


def run(rep: Report, only: str = "") -> None:
    from unit_scaling.transforms import _unit_scale as us
    from unit_scaling.transforms import utils as tu
    thorough = rep.tier == "thorough"
    timeout = 60 if thorough else 30
    tasks: List[Any] = [(task_order, (n,)) for n in range(1, 6 if thorough else 5)]
    tasks += [(task_compose, (n,)) for n in (1, 2, 3, 4)]
    fam = ["mlp", "residual", "attention"]
    for mname in fam:
        for fkey in (("fp8-nearest", "lossless", "mixed") if thorough else ("fp8-nearest", "lossless")):
            for precall in (False, True):
                if fkey == "mixed" and precall:
                    continue
                tasks.append((task_orders, (mname, fkey, precall, timeout)))
    chains = [("unit_scale",), ("simulate",), ("track",), ("unit_scale", "simulate"), ("simulate", "unit_scale"), ("unit_scale", "simulate", "track"),
              ("simulate", "unit_scale", "track"), ("simulate", "track"), ("unit_scale", "track")]
    for mname in fam + ["uu.MLP", "buffered"]:
        for ch in chains:
            if mname == "uu.MLP" and "unit_scale" in ch:
                continue  # unit_scale() of a module that already calls unit-scaled functions: outside the property's family
            tasks.append((task_nondestructive, (mname, ch, "fp8-nearest")))
    for mname in fam:
        for ch in (("unit_scale",), ("simulate",), ("unit_scale", "simulate"), ("simulate", "unit_scale"), ("unit_scale", "track")):
            tasks.append((task_retrace, (mname, ch, "fp8-nearest")))
    if only:
        tasks = [t for t in tasks if only in repr(t[1]) or only in t[0].__name__]
    rep.extend(run_tasks(tasks))
    rep.functions = [describe_function(f) for f in (lazy(lambda: us._order_backends), lazy(lambda: tu._compose_backends), lazy(lambda: tu.apply_transform), lazy(lambda: us.unit_scale))]
    rep.bounds = {"_order_backends": f"lists of length 1..{5 if thorough else 4} whose backend kinds are solver-selected (at most one unit-scaling and one quantisation backend)",
                  "orders": "every order of {unit_scale, simulate_format} on mlp / residual block / attention block, formats fp8-nearest and lossless (+ mixed stochastic, thorough), "
                            "with and without calling the intermediate module before nesting; graphs from the real TorchDynamo path; the two orders' results unified for all data and dims",
                  "non-destructive": "9 chains x 5 modules (one owning a float and an integer buffer) on real objects (concrete, labelled)",
                  "outside": "TorchDynamo's caching across repeated calls beyond 'two calls give equal results', and compile(): not encodable"}
    rep.assumptions = ["equal parameters in both orders = the same symbolic leaves; unit_scale's weight re-initialisation is deterministic"]
    rep.trusted = ["TorchDynamo capture", "engine S", "z3 for path feasibility over backend kinds"]
    rep.sample({"harness": "orders[residual,fp8-nearest]", "claim": "the final graphs of simulate(unit_scale(m)) and unit_scale(simulate(m)) unify on output and every gradient"})


def replay(data: Dict[str, Any]) -> Tuple[bool, str]:
    if data.get("kind") == "retrace":
        r = task_retrace(data["module"], tuple(data["order"]), data["formats"])
        v = [x for x in r if x.get("type") == "violation"]
        return bool(v), str([x["what"] for x in v] or "ok")
    if data.get("kind") == "nondestructive":
        r = task_nondestructive(data["module"], tuple(data["order"]), data["formats"])
        v = [x for x in r if x.get("type") == "violation"]
        return bool(v), str([x["what"] for x in v] or "ok")
    info = data.get("info") or {}
    if "n" in info and "module" not in info:
        return replay_order(data["obligation"], data["model"], info)
    return replay_orders(data["obligation"], data["model"], info)
