"""python -m vf.cli C13 --tier quick | --replay <file>"""
from __future__ import annotations

import argparse
import importlib
import json
import os
import sys
import traceback

from .report import Report

LEVELS = {
    "C15": "translation_validation", "C16": "translation_validation", "C17": "translation_validation",
    "C18": "translation_validation", "C19": "translation_validation",
}


def main() -> int:
    ap = argparse.ArgumentParser()
    ap.add_argument("pid")
    ap.add_argument("--tier", default=os.environ.get("VERIF_TIER", "quick"), choices=["quick", "thorough"])
    ap.add_argument("--replay", default=None)
    ap.add_argument("--only", default=None, help="substring filter on harness names (debugging)")
    a = ap.parse_args()
    seed = int(os.environ.get("VERIF_SEED", "0") or 0)
    os.environ["VERIF_TIER_EFFECTIVE"] = a.tier
    pid = a.pid.upper()
    mod = importlib.import_module(f"vf.checks.{pid.lower()}")
    if a.replay:
        with open(a.replay) as f:
            data = json.load(f)
        ok, msg = mod.replay(data["replay"])
        print(("REPRODUCED " if ok else "NOT-REPRODUCED ") + msg)
        return 1 if ok else 0
    rep = Report(pid, a.tier, seed, LEVELS.get(pid, "model_checking"))
    try:
        mod.run(rep, only=a.only) if a.only else mod.run(rep)
    except Exception:
        rep.inconclusive("harness-crash", traceback.format_exc()[-2000:])
    return rep.finish()


if __name__ == "__main__":
    sys.exit(main())
