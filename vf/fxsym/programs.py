"""Program family for the graph-transform checks (C15-C19): nn.Module programs generated from a small grammar.

A program is a list of segments applied to a running tensor x (shape (B, S, d)); every logical dimension has its own
distinct prime sample size so that concrete sizes met in captured graphs can be mapped back to dimension symbols.
The modules are ordinary torch code: TorchDynamo captures them through the library's real apply_transform path.
"""
from __future__ import annotations

import itertools
from typing import Any, Dict, List, Optional, Sequence, Tuple

import torch
import torch.nn.functional as F
from torch import nn

# logical dims -> sample sizes (distinct, so that size -> symbol is a function)
SIZES = {"B": 2, "S": 3, "d0": 5, "d1": 7, "d2": 11, "d3": 13, "V": 17, "h": 19}
WIDTHS = ["d0", "d1", "d2", "d3"]
KERNEL = 23  # a prime that is neither a sample size nor a product of two: stays a concrete kernel size


class Seg:
    """(kind, options).  kinds:
       lin / flin / lin_nb      nn.Linear (bias) / functional linear with own weight / nn.Linear(bias=False): width changes
       sq                       nn.Linear width-preserving (used inside residual branches)
       gelu / ngelu / silu / tanh / relu / mul / neg / ln / fln / sm / nsm / drop / mm
       add_in / add_in_r / add_sc / iadd_in      plain adds: x + y, y + x, x + 1.5, x += y   (y: fresh input of x's shape)
       res(f...) / res_r(f...)  residual block x + f(x) / f(x) + x with f a list of width-preserving segment kinds
       res2(fa...|fb...)        residual block x + fa(x) * fb(x): the skip tensor has two consumers inside the branch
       attn                     self-attention block: softmax-free F.scaled_dot_product_attention(x, x, x)
    """

    def __init__(self, kind: str, branch: Sequence[str] = ()):
        self.kind = kind
        self.branch = tuple(branch)

    def __repr__(self) -> str:
        return self.kind + (f"({'>'.join(self.branch)})" if self.branch else "")


UNARY = {"gelu", "ngelu", "silu", "tanh", "relu", "mul", "neg", "ln", "fln", "sm", "nsm", "drop", "attn", "sq", "sq_nb", "fsq", "mm_sq"}


class Prog(nn.Module):
    def __init__(self, segs: Sequence[Seg], head: Optional[str] = None, embed: bool = False):
        super().__init__()
        self.segs = list(segs)
        self.head = head
        self.embed = embed
        self.w = 0  # current width index
        self.mods = nn.ModuleList()
        self.extra: List[str] = []  # names of extra tensor inputs (fresh addends, targets)
        self.plan: List[Any] = []
        gen = torch.Generator().manual_seed(0)
        if embed:
            self.emb = nn.Embedding(SIZES["V"], SIZES[WIDTHS[0]])
        for i, s in enumerate(self.segs):
            self.plan.append(self._mk(s.kind, i, s.branch))
        if head == "ce":
            self.readout = nn.Linear(SIZES[WIDTHS[self.w]], SIZES["V"])

    # ---- construction of one op; returns a closure description
    def _width(self) -> int:
        return SIZES[WIDTHS[self.w]]

    def _mk(self, kind: str, i: int, branch: Sequence[str] = ()) -> Any:
        d = self._width()
        if kind in ("lin", "lin_nb", "flin"):
            nw = (self.w + 1) % len(WIDTHS)
            d2 = SIZES[WIDTHS[nw]]
            self.w = nw
            if kind == "flin":
                p = nn.Parameter(torch.randn(d2, d))
                self.register_parameter(f"fw{i}", p)
                return ("flin", f"fw{i}")
            m = nn.Linear(d, d2, bias=(kind == "lin"))
            self.mods.append(m)
            return ("mod", len(self.mods) - 1)
        if kind in ("nconv", "fconv"):
            nw = (self.w + 1) % len(WIDTHS)
            d2 = SIZES[WIDTHS[nw]]
            self.w = nw
            if kind == "fconv":
                p = nn.Parameter(torch.randn(d2, d, KERNEL))
                self.register_parameter(f"cw{i}", p)
                return ("fconv", f"cw{i}")
            m = nn.Conv1d(d, d2, KERNEL, padding=KERNEL // 2)
            self.mods.append(m)
            return ("nconv", len(self.mods) - 1)
        if kind in ("sq", "sq_nb"):
            m = nn.Linear(d, d, bias=(kind == "sq"))
            self.mods.append(m)
            return ("mod", len(self.mods) - 1)
        if kind in ("flin_kw", "ulin", "ulin_kw", "ulin_none"):
            p = nn.Parameter(torch.randn(d, d))
            b = nn.Parameter(torch.randn(d))
            self.register_parameter(f"fw{i}", p)
            self.register_parameter(f"fb{i}", b)
            return (kind, f"fw{i}", f"fb{i}")
        if kind in ("attn_mask_kw", "attn_mask_pos"):
            self.register_buffer(f"mask{i}", torch.tril(torch.ones(SIZES["S"], SIZES["S"], dtype=torch.bool)))
            return (kind, f"mask{i}")
        if kind == "fsq":
            p = nn.Parameter(torch.randn(d, d))
            self.register_parameter(f"fw{i}", p)
            return ("flin", f"fw{i}")
        if kind == "mm_sq":
            p = nn.Parameter(torch.randn(d, d))
            self.register_parameter(f"mw{i}", p)
            return ("mm", f"mw{i}")
        if kind == "ngelu":
            self.mods.append(nn.GELU())
            return ("mod", len(self.mods) - 1)
        if kind == "ln":
            self.mods.append(nn.LayerNorm(d))
            return ("mod", len(self.mods) - 1)
        if kind == "nsm":
            self.mods.append(nn.Softmax(dim=-1))
            return ("mod", len(self.mods) - 1)
        if kind == "drop":
            self.mods.append(nn.Dropout(0.0))
            return ("mod", len(self.mods) - 1)
        if kind in ("add_in", "add_in_r", "iadd_in"):
            name = f"y{i}"
            self.extra.append(name)
            return (kind, name, d)
        if kind in ("res", "res_r"):
            sub = [self._mk(b, 100 + i * 10 + j) for j, b in enumerate(branch)]
            return (kind, sub)
        if kind == "res2":
            # residual block whose skip tensor has TWO consumers inside the branch: x + fa(x) * fb(x)  ("|" separates fa from fb)
            cut = list(branch).index("|")
            sa = [self._mk(b, 300 + i * 20 + j) for j, b in enumerate(branch[:cut])]
            sb = [self._mk(b, 300 + i * 20 + 10 + j) for j, b in enumerate(branch[cut + 1:])]
            return ("res2", sa, sb)
        if kind == "par":
            # two independent residual streams a0 + fA(a0), b0 + fB(b0) (a0, b0 = separate projections of x), merged by a product
            half = len(branch) // 2
            la = nn.Linear(d, d)
            lb = nn.Linear(d, d, bias=False)
            self.mods.append(la)
            ia = len(self.mods) - 1
            self.mods.append(lb)
            ib = len(self.mods) - 1
            sa = [self._mk(b, 200 + i * 20 + j) for j, b in enumerate(branch[:half])]
            sb = [self._mk(b, 200 + i * 20 + 10 + j) for j, b in enumerate(branch[half:])]
            return ("par", ia, ib, sa, sb)
        return (kind,)

    def input_shapes(self) -> Dict[str, Tuple[Tuple[int, ...], torch.dtype]]:
        """name -> (shape, dtype) of every forward argument, in order"""
        B, S = SIZES["B"], SIZES["S"]
        out: Dict[str, Tuple[Tuple[int, ...], torch.dtype]] = {}
        out["x"] = ((B, S), torch.int64) if self.embed else ((B, S, SIZES[WIDTHS[0]]), torch.float32)
        for item in self._flat_plan():
            if item[0] in ("add_in", "add_in_r", "iadd_in"):
                out[item[1]] = ((B, S, item[2]), torch.float32)
        if self.head == "mse":
            out["target"] = ((B, S, SIZES[WIDTHS[self.w]]), torch.float32)
        if self.head == "ce":
            out["target"] = ((B * S,), torch.int64)
        return out

    def _flat_plan(self) -> List[Any]:
        out = []
        for it in self.plan:
            out.append(it)
            if it[0] in ("res", "res_r"):
                out.extend(it[1])
            if it[0] == "par":
                out.extend(it[3] + it[4])
            if it[0] == "res2":
                out.extend(it[1] + it[2])
        return out

    def _apply(self, item: Any, x: torch.Tensor, extra: Dict[str, torch.Tensor]) -> torch.Tensor:
        k = item[0]
        if k == "mod":
            return self.mods[item[1]](x)
        if k == "flin":
            return F.linear(x, getattr(self, item[1]))
        if k == "flin_kw":
            return F.linear(x, getattr(self, item[1]), bias=getattr(self, item[2]))
        if k == "ulin":
            import unit_scaling.functional as U
            return U.linear(x, getattr(self, item[1]), getattr(self, item[2]), "gmean")
        if k == "ulin_kw":
            import unit_scaling.functional as U
            return U.linear(x, getattr(self, item[1]), bias=getattr(self, item[2]), constraint="to_grad_input_scale")
        if k == "ulin_none":
            import unit_scaling.functional as U
            return U.linear(x, getattr(self, item[1]), None, None)
        if k == "attn_causal":
            return F.scaled_dot_product_attention(x, x, x, is_causal=True)
        if k == "attn_drop0":
            return F.scaled_dot_product_attention(x, x, x, dropout_p=0.0)
        if k == "attn_mask_kw":
            return F.scaled_dot_product_attention(x, x, x, attn_mask=getattr(self, item[1]))
        if k == "attn_mask_pos":
            return F.scaled_dot_product_attention(x, x, x, getattr(self, item[1]))
        if k == "uattn":
            import unit_scaling.functional as U
            return U.scaled_dot_product_attention(x, x, x, mult=2.0, is_causal=True)
        if k == "fan":  # fan-out: one tensor used by several consumers
            a = torch.tanh(x)
            return a * x + a
        if k == "passfan":  # a pass-through node (.contiguous() of a contiguous tensor returns the SAME tensor object) whose producer has a second consumer
            a = torch.tanh(x)
            return a.contiguous() * 2.0 + a
        if k == "mask":  # bool intermediate
            m = x > 0
            return torch.where(m, x, x * 0.5)
        if k == "idx":  # integer intermediate
            i = torch.argmax(x, dim=-1, keepdim=True)
            return x + torch.gather(x, -1, i)
        if k == "reshape":
            return x.unsqueeze(1).transpose(1, 2).squeeze(2)  # view-type reshaping without sizes baked into the graph
        if k == "nconv":
            return self.mods[item[1]](x.transpose(1, 2)).transpose(1, 2)
        if k == "fconv":
            return F.conv1d(x.transpose(1, 2), getattr(self, item[1]), None, 1, KERNEL // 2).transpose(1, 2)
        if k == "mm":
            return torch.matmul(x, getattr(self, item[1]))
        if k == "gelu":
            return F.gelu(x)
        if k == "silu":
            return F.silu(x)
        if k == "tanh":
            return torch.tanh(x)
        if k == "relu":
            return F.relu(x)
        if k == "mul":
            return x * 2.0
        if k == "neg":
            return -x
        if k == "fln":
            return F.layer_norm(x, x.shape[-1:])
        if k == "sm":
            return F.softmax(x, dim=-1)
        if k == "attn":
            return F.scaled_dot_product_attention(x, x, x)
        if k == "add_in":
            return x + extra[item[1]]
        if k == "add_in_r":
            return extra[item[1]] + x
        if k == "iadd_in":
            x = x * 1.0  # never write into a graph input
            x += extra[item[1]]
            return x
        if k == "add_sc":
            return x + 1.5
        if k in ("res", "res_r"):
            r = x
            for sub in item[1]:
                r = self._apply(sub, r, extra)
            return x + r if k == "res" else r + x
        if k == "res2":
            ra, rb = x, x
            for sub in item[1]:
                ra = self._apply(sub, ra, extra)
            for sub in item[2]:
                rb = self._apply(sub, rb, extra)
            return x + ra * rb
        if k == "par":
            a0, b0 = self.mods[item[1]](x), self.mods[item[2]](x)
            ra, rb = a0, b0
            for sub in item[3]:
                ra = self._apply(sub, ra, extra)
            for sub in item[4]:
                rb = self._apply(sub, rb, extra)
            return (a0 + ra) * (rb + b0)
        raise KeyError(k)

    def forward(self, x: torch.Tensor, *extra_args: torch.Tensor) -> torch.Tensor:
        names = [n for n in self.input_shapes() if n != "x"]
        extra = dict(zip(names, extra_args))
        if self.embed:
            x = self.emb(x)
        for item in self.plan:
            x = self._apply(item, x, extra)
        if self.head == "multi":
            return x, torch.relu(x).sum()
        if self.head == "mse":
            return F.mse_loss(x, extra["target"])
        if self.head == "ce":
            return F.cross_entropy(self.readout(x).flatten(end_dim=-2), extra["target"])
        return x

    def example_inputs(self, seed: int = 0) -> List[torch.Tensor]:
        g = torch.Generator().manual_seed(seed)
        out = []
        for n, (shape, dt) in self.input_shapes().items():
            if dt == torch.int64:
                out.append(torch.randint(0, SIZES["V"], shape, generator=g))
            else:
                out.append(torch.randn(shape, generator=g))
        return out

    def describe(self) -> str:
        return ("emb>" if self.embed else "") + ">".join(repr(s) for s in self.segs) + (f">{self.head}" if self.head else "")


# ------------------------------------------------------------------------------------------ enumeration
MAPPED = ["lin", "flin", "lin_nb", "gelu", "ngelu", "silu", "ln", "fln", "sm", "nsm", "drop", "mm_sq", "attn", "nconv", "fconv"]
UNMAPPED = ["tanh", "relu", "mul", "neg"]
ADDS = ["add_in", "add_in_r", "add_sc", "iadd_in"]
BRANCHES = [("sq",), ("gelu", "sq"), ("sq_nb", "silu"), ("ln", "fsq"), ("sm", "sq"), ("attn",), ("sq", "nsm"), ("tanh",), ("fsq", "relu")]


def residuals() -> List[Seg]:
    return [Seg(k, b) for k in ("res", "res_r") for b in BRANCHES]


def programs(tier: str, family: str = "c16") -> List[Any]:
    """Exhaustive up to a bound: all 1- and 2-segment programs over the vocabulary + 3-segment programs built around
    residual blocks (skip = input | residual output | plain sum) and plain-add placements; heads none/mse/ce."""
    th = tier == "thorough"
    atoms = [Seg(k) for k in MAPPED + UNMAPPED + ADDS]
    res = residuals()
    specs: List[Tuple[List[Seg], Optional[str], bool]] = []
    for a in atoms + res:
        specs.append(([a], None, False))
    for a in atoms:
        specs.append(([a], "mse", False))
    specs.append(([Seg("lin")], "ce", False))
    specs.append(([Seg("lin")], "ce", True))
    specs.append(([Seg("lin"), Seg("gelu")], None, True))
    for a, b in itertools.product(atoms + res, repeat=2):
        if not th and a.kind not in ("res", "res_r") and b.kind not in ("res", "res_r") and a.kind not in ADDS and b.kind not in ADDS:
            if (MAPPED + UNMAPPED).index(a.kind) % 3 != (MAPPED + UNMAPPED).index(b.kind) % 3:
                continue  # quick: thinned pairs of plain ops
        if not th and a.kind in ("res", "res_r") and b.kind in ("res", "res_r") and (BRANCHES.index(a.branch) + BRANCHES.index(b.branch)) % 3:
            continue
        specs.append(([a, b], None, False))
    # skip tensor produced by a plain sum (token + position embeddings) or by a residual output, then more ops / heads
    for pre in (Seg("add_in"), Seg("add_in_r"), Seg("iadd_in"), Seg("res", ("sq",)), Seg("lin")):
        for r in res:
            if not th and BRANCHES.index(r.branch) % 2 and pre.kind != "add_in":
                continue
            for post, head in ((None, None), (Seg("lin"), None), (Seg("gelu"), "mse"), (Seg("add_in"), None)):
                if not th and post is not None and (BRANCHES.index(r.branch) + len(pre.kind)) % 2:
                    continue
                specs.append(([pre, r] + ([post] if post else []), head, pre.kind == "add_in" and r.kind == "res" and post is None))
    # DAGs: two parallel residual streams merged later (the last residual add does not depend on the earlier one)
    pars = [Seg("par", ba + bb) for ba, bb in (((("sq", "gelu")), (("sq_nb", "silu"))), ((("fsq", "relu")), (("sq", "gelu"))), ((("sq", "nsm")), (("sq", "gelu"))),
                                               ((("attn",) + ("sq",)), (("ln", "fsq"))))]
    for pr in pars:
        for pre in (None, Seg("lin"), Seg("add_in")):
            for post, head in ((None, None), (Seg("lin"), "mse"), (Seg("res", ("sq",)), None)):
                if not th and pre is not None and post is not None and post.kind == "res":
                    continue
                specs.append(([s_ for s_ in (pre, pr, post) if s_ is not None], head, False))
    # residual blocks whose skip tensor is consumed twice inside the branch (a replaced op and a direct, unreplaced one, in both orders)
    res2 = [Seg("res2", b) for b in (("gelu", "|", "tanh"), ("tanh", "|", "gelu"), ("silu", "sq", "|", "tanh"), ("sq", "|", "relu"), ("ln", "|", "tanh", "sq"))]
    for r2 in res2:
        for pre in (None, Seg("lin"), Seg("add_in")):
            for post, head in ((None, None), (Seg("lin"), "mse")):
                if not th and pre is not None and post is not None:
                    continue
                specs.append(([s_ for s_ in (pre, r2, post) if s_ is not None], head, False))
    if th:
        for a, b, c in itertools.product(res[:6], [Seg("lin"), Seg("add_in"), Seg("gelu")], res[6:12]):
            specs.append(([a, b, c], None, False))
        for r1, r2, r3 in itertools.product(res[:4], res[4:8], res[8:12]):
            specs.append(([r1, r2, r3], "mse", False))
    out = []
    seen = set()
    for segs, head, emb in specs:
        spec = (tuple((s.kind, s.branch) for s in segs), head, emb)
        if spec in seen:
            continue
        seen.add(spec)
        out.append(spec)
    return out


ROOTS = {
    "ROOT_linear": lambda: nn.Linear(SIZES["d0"], SIZES["d1"]),
    "ROOT_sequential": lambda: nn.Sequential(nn.Linear(SIZES["d0"], SIZES["d1"]), nn.GELU(), nn.Linear(SIZES["d1"], SIZES["d0"], bias=False)),
    "ROOT_layernorm_seq": lambda: nn.Sequential(nn.LayerNorm(SIZES["d0"]), nn.Linear(SIZES["d0"], SIZES["d2"])),
}


def root_specs() -> List[Any]:
    """programs whose ROOT module is itself a torch.nn layer (no user-defined container around it)"""
    return [(((k, ()),), None, False) for k in ROOTS]


def build(spec: Any) -> Any:
    segs, head, emb = spec
    torch.manual_seed(0)
    if len(segs) == 1 and segs[0][0] in ROOTS:
        m = ROOTS[segs[0][0]]()
        m.example_inputs = lambda seed=0: [torch.randn(SIZES["B"], SIZES["S"], SIZES["d0"], generator=torch.Generator().manual_seed(seed))]
        return m
    return Prog([Seg(k, tuple(b)) for k, b in segs], head, emb)


def spec_name(spec: Any) -> str:
    segs, head, emb = spec
    return ("emb>" if emb else "") + ">".join(k + (f"({'>'.join(b)})" if b else "") for k, b in segs) + (f">{head}" if head else "")


# ------------------------------------------------------------------------------------------ family for the format-simulation checks
QOPS = ["lin", "lin_nb", "flin", "flin_kw", "ulin", "ulin_kw", "ulin_none", "attn", "attn_causal", "attn_drop0", "attn_mask_kw", "attn_mask_pos", "uattn"]
QFILL = ["gelu", "ln", "tanh", "add_in", "reshape", "mul", "sm"]


def qprograms(tier: str) -> List[Any]:
    """graphs over {linear with/without bias, positional or keyword; attention with/without mask/causal/dropout_p=0; their
    unit-scaled forms; elementwise ops, norms, adds, reshapes}: every quantised op alone, every pair (quantised, filler) in both
    orders, pairs of quantised ops, and (thorough) triples / residual placements; heads none / mse."""
    th = tier == "thorough"
    specs: List[Any] = []
    for q in QOPS:
        specs.append((((q, ()),), None, False))
        specs.append((((q, ()),), "mse", False))
        for f in QFILL:
            specs.append((((q, ()), (f, ())), None, False))
            specs.append((((f, ()), (q, ())), None, False))
    for a, b in itertools.product(QOPS, repeat=2):
        if th or (QOPS.index(a) + QOPS.index(b)) % 3 == 0:
            specs.append((((a, ()), (b, ())), None, False))
    specs.append(((("lin", ()),), "ce", True))
    for br in (("sq",), ("sq", "gelu"), ("attn",), ("ln", "fsq")):
        specs.append(((("res", br),), None, False))
        specs.append(((("lin", ()), ("res", br), ("lin_nb", ())), "mse", False))
    if th:
        for a, f, b in itertools.product(QOPS, QFILL, QOPS):
            if (QOPS.index(a) + QFILL.index(f) + QOPS.index(b)) % 2 == 0:
                specs.append((((a, ()), (f, ()), (b, ())), None, False))
    out, seen = [], set()
    for sp in specs:
        if sp not in seen:
            seen.add(sp)
            out.append(sp)
    return out


def tprograms(tier: str) -> List[Any]:
    """family for the scale-tracking / pruning checks: C16-style programs + fan-out, bool/int intermediates, views,
    negations, multiple outputs, parameters"""
    th = tier == "thorough"
    base = ["lin", "flin", "gelu", "ln", "sm", "attn", "tanh", "mul", "neg", "reshape", "fan", "mask", "idx", "add_in", "add_sc", "iadd_in", "drop", "nconv", "passfan"]
    specs: List[Any] = []
    for a in base:
        for head in (None, "mse", "multi"):
            specs.append((((a, ()),), head, False))
    for a, b in itertools.product(base, repeat=2):
        if th or (base.index(a) * 7 + base.index(b)) % 4 == 0:
            specs.append((((a, ()), (b, ())), None if (base.index(a) + base.index(b)) % 2 else "mse", False))
    for br in BRANCHES[:5]:
        specs.append(((("res", br),), None, False))
        specs.append(((("lin", ()), ("res", br), ("reshape", ())), "mse", False))
    specs.append(((("lin", ()), ("gelu", ())), "ce", True))
    if th:
        for a, b, c in itertools.product(base[:10], base[8:], base[:6]):
            if (base.index(a) + base.index(b) + base.index(c)) % 3 == 0:
                specs.append((((a, ()), (b, ()), (c, ())), "mse", False))
    out, seen = [], set()
    for sp in specs:
        if sp not in seen:
            seen.add(sp)
            out.append(sp)
    return out
