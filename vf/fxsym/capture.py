"""Obtaining FX graphs through the library's REAL transform path (TorchDynamo via apply_transform): a capturing
backend is put in front of / behind the library's own backends in module.backends, so the graphs that are
translation-validated are the ones Dynamo really produced and the library really rewrote."""
from __future__ import annotations

import copy
from typing import Any, Callable, Dict, List, Optional, Tuple

import torch
import torch._dynamo
from torch.fx.graph_module import GraphModule


class Captured:
    def __init__(self) -> None:
        self.original: Optional[GraphModule] = None
        self.rewritten: Optional[Any] = None
        self.example_inputs: List[Any] = []
        self.error: Optional[str] = None
        self.output: Any = None
        self.graphs = 0
        self.stages: List[Tuple[str, GraphModule]] = []  # (qualname of the backend about to run, graph it receives)


def capture(transform: Callable[[torch.nn.Module], torch.nn.Module], module: torch.nn.Module, inputs: List[torch.Tensor],
            run_backward: bool = True) -> Captured:
    """Applies `transform` (e.g. unit_scale, simulate_fp8, a composition) to `module`, runs it once on real inputs and
    returns the graph Dynamo captured (before the library's backends) and the graph the library produced."""
    cap = Captured()
    torch._dynamo.reset()
    try:
        tm = transform(module)
    except Exception as e:
        cap.error = f"transform raised {type(e).__name__}: {e}"
        return cap

    def first(gm: GraphModule, example_inputs: List[Any]) -> GraphModule:
        cap.graphs += 1
        cap.original = GraphModule(gm, copy.deepcopy(gm.graph))
        cap.example_inputs = list(example_inputs)
        return gm

    def last(gm: Any, example_inputs: List[Any]) -> Any:
        cap.rewritten = gm
        return gm

    first.__qualname__ = "verif_capture_first"
    last.__qualname__ = "verif_capture_last"

    def staged(b: Any) -> Any:
        def w(gm: GraphModule, example_inputs: List[Any]) -> Any:
            if isinstance(gm, GraphModule):
                cap.stages.append((getattr(b, "__qualname__", repr(b)), GraphModule(gm, copy.deepcopy(gm.graph))))
            return b(gm, example_inputs)
        w.__qualname__ = getattr(b, "__qualname__", "backend")
        return w

    tm.backends[:] = [staged(b) for b in tm.backends]
    tm.backends.insert(0, first)
    tm.backends.append(last)
    try:
        ins = [t.clone().requires_grad_(True) if t.is_floating_point() else t.clone() for t in inputs]
        out = tm(*ins)
        cap.output = out
        if run_backward and isinstance(out, torch.Tensor) and out.requires_grad:
            out.backward(torch.ones_like(out))
    except Exception as e:
        cap.error = f"{type(e).__name__}: {str(e)[:400]}"
    finally:
        torch._dynamo.reset()
    return cap
