"""Symbolic interpretation of FX graphs (engine S inside torch.fx.Interpreter) and the independent reference
interpreter that applies the User-Guide recipe to the ORIGINAL graph."""
from __future__ import annotations

import operator
from typing import Any, Callable, Dict, List, Optional, Sequence, Set, Tuple

import torch
import torch.fx as fx
import torch.nn.functional as F
from torch.fx.node import Node

from ..sym.scalar import Ctx, SInt
from ..sym.tensor import LC, HarnessError, STensor
from .programs import SIZES


def size_symbols(c: Ctx) -> Dict[int, Any]:
    """concrete sample size -> dimension symbol (sizes are distinct primes, products of two are registered too)"""
    sym = {v: c.dim(k, 1, 2 ** 20, sample=v) for k, v in SIZES.items()}
    table: Dict[int, Any] = dict(sym)
    items = list(sym.items())
    for i, (a, sa) in enumerate(items):
        for b, sb in items[i:]:
            table.setdefault(a * b, sa * sb)
    return table


def leaves_for(c: Ctx, gm: fx.GraphModule, example_inputs: Sequence[Any], table: Dict[int, Any]) -> Dict[str, STensor]:
    """one symbolic leaf per placeholder (parameters are lifted to placeholders by Dynamo)"""
    out: Dict[str, STensor] = {}
    phs = [n for n in gm.graph.nodes if n.op == "placeholder"]
    for n, ex in zip(phs, example_inputs):
        if not isinstance(ex, torch.Tensor):
            raise HarnessError(f"non-tensor graph input {n.target}")
        shape = tuple(table.get(int(s), int(s)) if int(s) != 1 else 1 for s in ex.shape)
        out[str(n.target)] = STensor.leaf(str(n.target), shape, ex.dtype, requires_grad=ex.is_floating_point())
    return out


def is_hop_apply(target: Any) -> bool:
    return getattr(target, "__name__", "") == "autograd_function_apply" or "autograd_function_apply" in str(target)


def has_hop(gm: fx.GraphModule) -> bool:
    return any(n.op == "call_function" and is_hop_apply(n.target) for n in gm.graph.nodes)


def hop_autograd_apply(fwd: fx.GraphModule, bwd: fx.GraphModule, operands: Sequence[Any]) -> Any:
    """TorchDynamo inlines a custom autograd.Function (the library's _ScaledGrad, Quantise*) as the higher-order op
    autograd_function_apply(fwd_body, bwd_body, *operands): forward = fwd_body(*operands) -> (outputs, saved), not
    differentiated through; backward = bwd_body(*grads, *saved).  Same protocol as the patched Function.apply."""
    from ..sym.tensor import LC, Mode, Node, no_grad
    with no_grad():
        res = fx.Interpreter(fwd, garbage_collect_values=False).run(*operands)
    outs, saved = res
    as_tuple = isinstance(outs, (tuple, list))
    outs = tuple(outs) if as_tuple else (outs,)
    parents = [o for o in operands if isinstance(o, STensor)]
    pidx = [i for i, o in enumerate(operands) if isinstance(o, STensor)]
    if len(outs) != 1 or not isinstance(outs[0], STensor):
        raise HarnessError("autograd_function_apply with several outputs")
    out = outs[0]
    node = None
    if Mode.grad and any(p.requires_grad for p in parents):
        def vjp(g: LC) -> List[Optional[LC]]:
            gt = STensor(g, out.shape, out.meta)
            r = fx.Interpreter(bwd, garbage_collect_values=False).run(gt, *saved)
            r = tuple(r) if isinstance(r, (tuple, list)) else (r,)
            res_l: List[Optional[LC]] = []
            for k, i in enumerate(pidx):
                v = r[i] if i < len(r) else None
                res_l.append(v.lc if isinstance(v, STensor) else None)
            return res_l

        node = Node(parents, vjp, "autograd_function_apply")
    torch.set_grad_enabled(True)
    r_out = STensor(out.lc, out.shape, out.meta, node=node, const=out.const)
    return (r_out,) if as_tuple else r_out


class SymInterp(fx.Interpreter):
    def __init__(self, gm: fx.GraphModule, leaves: Dict[str, STensor], record: Optional[Dict[str, Any]] = None,
                 functional_inplace: bool = False):
        super().__init__(gm, garbage_collect_values=False)
        self.leaves = leaves
        self.record = record
        self.functional_inplace = functional_inplace  # reference semantics: each node's value as it was when produced

    def placeholder(self, target: Any, args: Any, kwargs: Any) -> Any:
        return self.leaves[str(target)]

    def run_node(self, n: Node) -> Any:
        out = super().run_node(n)
        if self.record is not None:
            self.record[n.name] = out
        return out

    def call_function(self, target: Any, args: Any, kwargs: Any) -> Any:
        if is_hop_apply(target):
            return hop_autograd_apply(args[0], args[1], args[2:])
        if self.functional_inplace and target is operator.iadd:
            target = operator.add
        return super().call_function(target, args, kwargs)

    def run_symbolic(self) -> Any:
        phs = [n for n in self.module.graph.nodes if n.op == "placeholder"]
        return self.run(*[self.leaves[str(n.target)] for n in phs])


# ------------------------------------------------------------------------------------------ recipe reference
def _ancestors(n: Node, memo: Dict[Node, Set[Node]]) -> Set[Node]:
    if n in memo:
        return memo[n]
    s: Set[Node] = set()
    for p in n.all_input_nodes:
        s.add(p)
        s |= _ancestors(p, memo)
    memo[n] = s
    return s


def _is_add(n: Node) -> bool:
    return n.op == "call_function" and n.target in (operator.add, operator.iadd, torch.add)


ATTN = {"scaled_dot_product_attention", "softmax"}


def recipe_plan(graph: fx.Graph, replace: Optional[Dict[Any, Any]] = None) -> Dict[str, Any]:
    """What the User-Guide hand conversion does to each node of the original graph (written independently of the
    library's backend): mapped ops, residual adds (with tau), plain adds, which ops stay constrained."""
    import unit_scaling.functional as U
    replace = replace or {}
    memo: Dict[Node, Set[Node]] = {}
    plan: Dict[str, Any] = {"residual": {}, "plain_add": set(), "mapped": {}, "constrained": set(), "skip_users": {}}
    names = {f: getattr(U, f) for f in U.__all__}
    for n in graph.nodes:
        if n.op != "call_function":
            continue
        if n.target in replace:
            plan["mapped"][n] = replace[n.target]
        else:
            nm = getattr(n.target, "__name__", None)
            tf = getattr(F, nm, None) if nm else None
            tt = getattr(torch, nm, None) if nm else None
            if nm in names and (n.target is tf or n.target is tt) and nm not in ("add",):
                plan["mapped"][n] = names[nm]
    for n in graph.nodes:
        if _is_add(n) and len(n.args) == 2 and isinstance(n.args[0], Node) and isinstance(n.args[1], Node):
            l, r = n.args
            if l in _ancestors(r, memo) or r in _ancestors(l, memo):
                skip, res = (l, r) if l in _ancestors(r, memo) else (r, l)
                # branch = everything the residual operand is computed from, without crossing the skip tensor
                seen: Set[Node] = set()
                stack = [res]
                branch = []
                while stack:
                    p = stack.pop()
                    if p is skip or p in seen:
                        continue
                    seen.add(p)
                    branch.append(p)
                    stack += p.all_input_nodes
                is_attn = any(getattr(b.target, "__name__", "") in ATTN for b in branch if b.op == "call_function")
                plan["residual"][n] = {"skip": skip, "res": res, "tau": 0.01 if is_attn else 0.5}
            else:
                plan["plain_add"].add(n)
        elif _is_add(n):
            plan["plain_add"].add(n)  # tensor + python scalar: U.add leaves it to torch.add
    for a in plan["residual"]:
        plan["constrained"] |= _ancestors(a, memo)
    return plan


def run_reference(gm: fx.GraphModule, leaves: Dict[str, STensor], replace: Optional[Dict[Any, Any]] = None,
                  record: Optional[Dict[str, Any]] = None) -> Any:
    """Evaluates the original graph under the recipe with the real U.* functions on symbolic tensors."""
    import inspect
    import unit_scaling.functional as U
    graph = gm.graph
    plan = recipe_plan(graph, replace)
    env: Dict[Node, Any] = {}
    split_res: Dict[Node, Any] = {}  # skip node -> value its other users see (residual_split(...)[0])
    split_skip: Dict[Tuple[Node, Node], Any] = {}
    skips: Dict[Node, List[Node]] = {}
    for a, info in plan["residual"].items():
        skips.setdefault(info["skip"], []).append(a)

    def val(x: Any, user: Node) -> Any:
        if isinstance(x, Node):
            if x in skips:
                if user in skips[x] and (x, user) in split_skip:
                    return split_skip[(x, user)]
                return split_res[x]
            return env[x]
        if isinstance(x, (tuple, list)):
            return type(x)(val(v, user) for v in x)
        if isinstance(x, dict):
            return {k: val(v, user) for k, v in x.items()}
        return x

    out = None
    for n in graph.nodes:
        if n.op == "placeholder":
            env[n] = leaves[str(n.target)]
        elif n.op == "get_attr":
            raise HarnessError("get_attr in a Dynamo graph")
        elif n.op == "output":
            out = val(n.args[0], n)
        elif n.op == "call_method":
            a = val(n.args, n)
            env[n] = getattr(a[0], n.target)(*a[1:], **val(n.kwargs, n))
        elif n.op == "call_function":
            args, kwargs = val(n.args, n), val(n.kwargs, n)
            if n in plan["residual"]:
                info = plan["residual"][n]
                # the skip operand was replaced by split[1] through val(); residual operand is the other one
                res_v = args[0] if n.args[0] is info["res"] else args[1]
                skp_v = args[1] if n.args[0] is info["res"] else args[0]
                env[n] = U.residual_add(res_v, skp_v, info["tau"])
            elif n in plan["plain_add"]:
                env[n] = U.add(*args, **dict(kwargs, constraint=None))
            elif n in plan["mapped"]:
                fn = plan["mapped"][n]
                if n not in plan["constrained"] and "constraint" in inspect.signature(fn).parameters:
                    kwargs = dict(kwargs, constraint=None)
                env[n] = fn(*args, **kwargs)
            else:
                env[n] = n.target(*args, **kwargs)
        else:
            raise HarnessError(n.op)
        if n in skips and n.op != "output":
            # delayed branch scaling: one split per residual add hanging off this tensor (our programs: exactly one)
            if len(skips[n]) != 1:
                raise HarnessError("tensor is the skip of several residual adds: outside the program family")
            a = skips[n][0]
            r, s = U.residual_split(env[n], plan["residual"][a]["tau"])
            split_res[n] = r
            split_skip[(n, a)] = s
        if record is not None and n in env:
            record[n.name] = env[n]
    return out
