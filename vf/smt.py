"""Thin z3 helpers shared by the engines."""
from __future__ import annotations

import time
from typing import Any, Dict, List, Optional, Sequence, Tuple

import z3


def check(constraints: Sequence[Any], timeout_s: float = 60.0, tactic: Optional[str] = None) -> Tuple[str, Any, float]:
    """Returns ('unsat'|'sat'|'unknown', model-or-None, seconds)."""
    s = z3.Tactic(tactic).solver() if tactic else z3.Solver()
    s.set("timeout", int(timeout_s * 1000))
    for c in constraints:
        s.add(c)
    t0 = time.time()
    r = s.check()
    dt = time.time() - t0
    rs = str(r)
    return rs, (s.model() if rs == "sat" else None), dt


def prove(domain: Sequence[Any], claim: Any, timeout_s: float = 60.0, tactic: Optional[str] = None) -> Tuple[str, Any, float]:
    """unsat of domain & not claim  ==  claim holds for every value in the domain."""
    return check(list(domain) + [z3.Not(claim)], timeout_s, tactic)


def model_int(model: Any, var: Any) -> int:
    v = model.eval(var, model_completion=True)
    return v.as_long()
