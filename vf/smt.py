"""Thin z3 helpers shared by the engines."""
from __future__ import annotations

import time
from typing import Any, Dict, List, Optional, Sequence, Tuple

import z3


def check(constraints: Sequence[Any], timeout_s: float = 60.0, tactic: Optional[str] = None) -> Tuple[str, Any, float]:
    """Returns ('unsat'|'sat'|'unknown', model-or-None, seconds)."""
    s = z3.Tactic(tactic).solver() if tactic else z3.Solver()
    s.set("timeout", int(timeout_s * 1000))
    for c in constraints:
        s.add(c)
    t0 = time.time()
    r = s.check()
    dt = time.time() - t0
    rs = str(r)
    return rs, (s.model() if rs == "sat" else None), dt


def prove(domain: Sequence[Any], claim: Any, timeout_s: float = 60.0, tactic: Optional[str] = None) -> Tuple[str, Any, float]:
    """unsat of domain & not claim  ==  claim holds for every value in the domain."""
    return check(list(domain) + [z3.Not(claim)], timeout_s, tactic)


def model_int(model: Any, var: Any) -> int:
    v = model.eval(var, model_completion=True)
    return v.as_long()


def _cvc5_decide(text: str, timeout_s: float) -> str:
    import cvc5
    slv = cvc5.Solver()
    slv.setOption("tlimit-per", str(int(timeout_s * 1000)))
    slv.setOption("nl-cov", "true")
    slv.setLogic("ALL")
    parser = cvc5.InputParser(slv)
    parser.setStringInput(cvc5.InputLanguage.SMT_LIB_2_6, text, "q")
    sm = parser.getSymbolManager()
    res = "unknown"
    while True:
        cmd = parser.nextCommand()
        if cmd.isNull():
            break
        out = str(cmd.invoke(slv, sm)).strip()
        if out in ("sat", "unsat", "unknown"):
            res = out
        elif out.startswith("(error"):
            return "error"
    return res


def cvc5_check(constraints: Sequence[Any], timeout_s: float = 10.0) -> Tuple[str, float]:
    """Second opinion: the same query (z3's SMT-LIB2 export) decided by cvc5 1.4 (wheel). ('unsat'|'sat'|'unknown'|'error', s)

    cvc5 runs in a forked child that is killed after the time limit: its own `tlimit-per` is only polled at resource check
    points, and a coverings step on large rationals has been seen to run for half an hour inside one GMP multiplication."""
    import os
    import select
    import signal
    t0 = time.time()
    try:
        s = z3.Solver()
        s.add(*constraints)
        text = s.to_smt2()
    except Exception:
        return "error", time.time() - t0
    try:
        r, w = os.pipe()
        pid = os.fork()
    except OSError:
        return "error", time.time() - t0
    if pid == 0:  # child: nothing but cvc5 and the text
        try:
            os.close(r)
            try:
                res = _cvc5_decide(text, timeout_s)
            except Exception:
                res = "error"
            os.write(w, res.encode())
        finally:
            os._exit(0)
    os.close(w)
    res = "unknown"
    try:
        ready, _, _ = select.select([r], [], [], timeout_s + 3.0)
        if ready:
            data = os.read(r, 64).decode().strip()
            if data in ("sat", "unsat", "unknown", "error"):
                res = data
        else:
            try:
                os.kill(pid, signal.SIGKILL)
            except OSError:
                pass
    finally:
        os.close(r)
        try:
            os.waitpid(pid, 0)
        except OSError:
            pass
    return res, time.time() - t0
