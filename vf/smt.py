"""Thin z3 helpers shared by the engines."""
from __future__ import annotations

import time
from typing import Any, Dict, List, Optional, Sequence, Tuple

import z3


def check(constraints: Sequence[Any], timeout_s: float = 60.0, tactic: Optional[str] = None) -> Tuple[str, Any, float]:
    """Returns ('unsat'|'sat'|'unknown', model-or-None, seconds)."""
    s = z3.Tactic(tactic).solver() if tactic else z3.Solver()
    s.set("timeout", int(timeout_s * 1000))
    for c in constraints:
        s.add(c)
    t0 = time.time()
    r = s.check()
    dt = time.time() - t0
    rs = str(r)
    return rs, (s.model() if rs == "sat" else None), dt


def prove(domain: Sequence[Any], claim: Any, timeout_s: float = 60.0, tactic: Optional[str] = None) -> Tuple[str, Any, float]:
    """unsat of domain & not claim  ==  claim holds for every value in the domain."""
    return check(list(domain) + [z3.Not(claim)], timeout_s, tactic)


def model_int(model: Any, var: Any) -> int:
    v = model.eval(var, model_completion=True)
    return v.as_long()


def cvc5_check(constraints: Sequence[Any], timeout_s: float = 10.0) -> Tuple[str, float]:
    """Second opinion: the same query (z3's SMT-LIB2 export) decided by cvc5 1.4 (wheel). ('unsat'|'sat'|'unknown'|'error', s)"""
    t0 = time.time()
    try:
        import cvc5
        s = z3.Solver()
        s.add(*constraints)
        text = s.to_smt2()
        slv = cvc5.Solver()
        slv.setOption("tlimit-per", str(int(timeout_s * 1000)))
        slv.setOption("nl-cov", "true")
        slv.setLogic("ALL")
        parser = cvc5.InputParser(slv)
        parser.setStringInput(cvc5.InputLanguage.SMT_LIB_2_6, text, "q")
        sm = parser.getSymbolManager()
        res = "unknown"
        while True:
            cmd = parser.nextCommand()
            if cmd.isNull():
                break
            out = str(cmd.invoke(slv, sm)).strip()
            if out in ("sat", "unsat", "unknown"):
                res = out
            elif out.startswith("(error"):
                return "error", time.time() - t0
        return res, time.time() - t0
    except Exception:
        return "error", time.time() - t0
