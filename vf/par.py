"""Process-parallel execution of independent harness tasks (z3 contexts are per process)."""
from __future__ import annotations

import multiprocessing as mp
import os
import traceback
from concurrent.futures import ProcessPoolExecutor, as_completed
from typing import Any, Callable, Dict, Iterable, List, Tuple

from .report import INCONCLUSIVE


class TaskTimeout(BaseException):
    """raised by the watchdog alarm inside a worker (BaseException: harness code catches Exception only)"""


def _task_limit() -> int:
    d = 3600 if os.environ.get("VERIF_TIER_EFFECTIVE") == "thorough" else 600
    return int(os.environ.get("VERIF_TASK_TIMEOUT", d))


def _call(fn: Callable[..., List[Dict[str, Any]]], args: Tuple[Any, ...]) -> List[Dict[str, Any]]:
    """one harness task under a wall-clock watchdog: a mutated library must not be able to hang a check (path explosion, endless loop)"""
    import signal
    limit = _task_limit()

    def on_alarm(signum: int, frame: Any) -> None:
        raise TaskTimeout()

    old = None
    try:
        old = signal.signal(signal.SIGALRM, on_alarm)
        signal.alarm(limit)
    except (ValueError, OSError):  # not the main thread
        old = None
    try:
        return fn(*args)
    except TaskTimeout:
        return [{"type": "obligation", "name": f"{fn.__name__}{args!r}"[:200], "status": INCONCLUSIVE,
                 "detail": f"task exceeded the watchdog limit of {limit} s (never reported as success)", "queries": 0}]
    except Exception:
        return [{"type": "obligation", "name": f"{fn.__name__}{args!r}"[:200], "status": INCONCLUSIVE,
                 "detail": traceback.format_exc()[-1500:], "queries": 0}]
    finally:
        if old is not None:
            signal.alarm(0)
            signal.signal(signal.SIGALRM, old)


def run_tasks(tasks: Iterable[Tuple[Callable[..., List[Dict[str, Any]]], Tuple[Any, ...]]],
              workers: int = 0) -> List[Dict[str, Any]]:
    tasks = list(tasks)
    workers = workers or min(int(os.environ.get("VERIF_WORKERS", "16")), os.cpu_count() or 4)
    out: List[Dict[str, Any]] = []
    if workers <= 1 or len(tasks) <= 1:
        for fn, args in tasks:
            out.extend(_call(fn, args))
        return out
    ctx = mp.get_context("fork")
    with ProcessPoolExecutor(max_workers=workers, mp_context=ctx) as ex:
        futs = {ex.submit(_call, fn, args): (fn, args) for fn, args in tasks}
        for fut in as_completed(futs):
            fn, args = futs[fut]
            try:
                out.extend(fut.result())
            except Exception as e:  # worker died (OOM, segfault in solver)
                out.append({"type": "obligation", "name": f"{fn.__name__}{args!r}"[:200],
                            "status": INCONCLUSIVE, "detail": f"worker died: {e!r}", "queries": 0})
    return out
