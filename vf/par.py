"""Process-parallel execution of independent harness tasks (z3 contexts are per process)."""
from __future__ import annotations

import multiprocessing as mp
import os
import traceback
from concurrent.futures import ProcessPoolExecutor, as_completed
from typing import Any, Callable, Dict, Iterable, List, Tuple

from .report import INCONCLUSIVE


def _call(fn: Callable[..., List[Dict[str, Any]]], args: Tuple[Any, ...]) -> List[Dict[str, Any]]:
    try:
        return fn(*args)
    except Exception:
        return [{"type": "obligation", "name": f"{fn.__name__}{args!r}"[:200], "status": INCONCLUSIVE,
                 "detail": traceback.format_exc()[-1500:], "queries": 0}]


def run_tasks(tasks: Iterable[Tuple[Callable[..., List[Dict[str, Any]]], Tuple[Any, ...]]],
              workers: int = 0) -> List[Dict[str, Any]]:
    tasks = list(tasks)
    workers = workers or min(int(os.environ.get("VERIF_WORKERS", "16")), os.cpu_count() or 4)
    out: List[Dict[str, Any]] = []
    if workers <= 1 or len(tasks) <= 1:
        for fn, args in tasks:
            out.extend(_call(fn, args))
        return out
    ctx = mp.get_context("fork")
    with ProcessPoolExecutor(max_workers=workers, mp_context=ctx) as ex:
        futs = {ex.submit(_call, fn, args): (fn, args) for fn, args in tasks}
        for fut in as_completed(futs):
            fn, args = futs[fut]
            try:
                out.extend(fut.result())
            except Exception as e:  # worker died (OOM, segfault in solver)
                out.append({"type": "obligation", "name": f"{fn.__name__}{args!r}"[:200],
                            "status": INCONCLUSIVE, "detail": f"worker died: {e!r}", "queries": 0})
    return out
