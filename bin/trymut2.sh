#!/bin/bash
# usage: bin/trymut2.sh '<python replace: old|||new>' <file-under-/repo> "<checks>"
set -u
spec="$1"; file="$2"; chks="$3"
cd /repo && git diff --quiet || { echo "/repo dirty"; exit 9; }
/venv/bin/python - "$spec" "/repo/$file" <<'P'
import sys
old,new=sys.argv[1].split('|||')
s=open(sys.argv[2]).read()
assert old in s, "MUTANT DID NOT APPLY"
open(sys.argv[2],'w').write(s.replace(old,new,1))
P
[ $? -ne 0 ] && exit 8
git diff | grep '^[+-]' | grep -v '^+++\|^---'
cd /verif
for chk in $chks; do VERIF_OUT=/var/tmp/verif_seed_out bin/vcheck "$chk" --tier quick 2>&1 | grep -v "^INCONCLUSIVE\|^KNOWN\|^E1002\|^W1002\|^  " | cut -c1-250 | tail -2; done
git -C /repo checkout -- .
