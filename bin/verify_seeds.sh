#!/bin/bash
# For every seeded change: confirm in a scratch worktree that (1) the patch applies to /repo HEAD, (2) the demo fails with it and
# passes without it, (3) the existing suite still passes with it; then (4) run the registered quick check(s) of its property on
# /repo with the patch applied (and revert).  Results -> seeded/<id>/verified.json
# A seed whose meta.json says "kind": "benign" is a behaviour-preserving refactoring: no demo, every check must exit 0 with it.
cd "$(dirname "$0")/.."
only=${1:-}
git -C /repo diff --quiet || { echo "/repo dirty"; exit 9; }
WT=/tmp/wt_verify
for d in seeded/*/; do
  id=$(basename $d); [ -n "$only" ] && [[ "$id" != *"$only"* ]] && continue
  [ -n "$SKIP" ] && [[ "$id" =~ $SKIP ]] && continue   # SKIP: a regex on the seed id, e.g. -r[34]-
  prop=${id%%-*}
  git -C /repo worktree remove --force $WT 2>/dev/null; git -C /repo worktree add -q --detach $WT HEAD
  res_apply=fail; demo_with=?; demo_without=?; tests=?
  benign=no; grep -q '"kind": "benign"' $d/meta.json && benign=yes
  if git -C $WT apply $PWD/$d/patch.diff 2>/dev/null; then
    res_apply=ok
    if [ $benign = no ]; then
      cp $d/demo.py $WT/_demo.py
      (cd $WT && timeout 600 /venv/bin/python _demo.py $WT >/dev/null 2>&1); demo_with=$?
    else demo_with=n/a; demo_without=n/a; fi
    tests=$(cd $WT && timeout 1500 /venv/bin/python -m pytest -q -p no:cacheprovider -x unit_scaling/tests -k "not test_analysis" 2>&1 | tail -1)
    git -C $WT checkout -- unit_scaling
    [ $benign = no ] && { (cd $WT && timeout 600 /venv/bin/python _demo.py $WT >/dev/null 2>&1); demo_without=$?; }
  fi
  git -C /repo worktree remove --force $WT
  caught=""
  if [ $res_apply = ok ]; then
    git -C /repo apply $PWD/$d/patch.diff
    for c in $(cat $d/checks 2>/dev/null || echo $prop); do
      out=$(VERIF_OUT=/var/tmp/verif_seed_out bin/vcheck $c --tier quick 2>&1 | grep -v "^E1002\|^W1002" | tail -1)
      nv=$(bin/true 2>/dev/null; echo "$out" | sed -n 's/.*violations=\([0-9]*\).*exit=\([0-9]*\).*/\1 exit=\2/p')
      caught="$caught $c:violations=$nv"
    done
    git -C /repo checkout -- .
  fi
  echo "$id apply=$res_apply demo_with_patch_exit=$demo_with demo_without_exit=$demo_without tests='$tests' checks:$caught"
  /venv/bin/python - "$d" "$res_apply" "$demo_with" "$demo_without" "$tests" "$caught" <<'P'
import json,sys,subprocess
d,ap,dw,dwo,tests,caught=sys.argv[1:]
head=subprocess.check_output(['git','-C','/repo','log','--format=%h','-1']).decode().strip()
json.dump({"repo_head":head,"patch_applies":ap=="ok","demo_exit_with_patch":dw,"demo_exit_without_patch":dwo,"suite_with_patch":tests,
           "quick_checks_with_patch":caught.strip(),"how":"bin/verify_seeds.sh: scratch worktree /tmp/wt_verify (removed afterwards); checks run on /repo with the patch applied, then git checkout"},
          open(d+"/verified.json","w"),indent=1)
P
done
