#!/bin/bash
# Build the overlay venv (offline): /venv's packages + z3-solver, cvc5, crosshair-tool from the wheelhouse.
set -e
cd "$(dirname "$0")/.."
V=.venv
if [ ! -x $V/bin/python ] || ! $V/bin/python -c "import z3, torch" 2>/dev/null; then
  rm -rf $V
  /venv/bin/python -m venv $V
  SP=$($V/bin/python -c "import sysconfig;print(sysconfig.get_paths()['purelib'])")
  echo "import site; site.addsitedir('/venv/lib/python3.12/site-packages')" > $SP/_venv_overlay.pth
  PIP_NO_INDEX=1 $V/bin/pip install -q --no-index --find-links /opt/veriftools/wheels z3-solver cvc5 crosshair-tool >/dev/null 2>&1 || \
  PIP_NO_INDEX=1 $V/bin/pip install -q --no-index --find-links /opt/veriftools/wheels z3-solver
fi
$V/bin/python -c "import z3, torch, sympy; print('overlay ok: z3', z3.get_version_string())"
