#!/venv/bin/python
"""Development tool (not a registered check): copy one verified seed round into /verif/seeded.

usage: SEED_SRC=/root/seed7 bin/import_round.py r7 PID=slug [PID=slug ...]
For every PID: seeded/<PID>-<round>-<slug>/ {patch.diff, demo.py, meta.json, verified.json} from break.diff and, when present,
seeded/<PID>-<round>-benign-1/ {patch.diff, meta.json (kind: benign), verified.json}.  verified.json is taken from
$SEED_SRC/results.json as written by bin/verify_r3.py.
"""
import json
import os
import shutil
import subprocess
import sys

SRC = os.environ.get("SEED_SRC", "/root/seed7")
ROOT = os.path.join(os.path.dirname(os.path.abspath(__file__)), "..", "seeded")
head = subprocess.run("git -C /repo rev-parse --short HEAD", shell=True, capture_output=True, text=True).stdout.strip()
rnd = sys.argv[1]
res = json.load(open(f"{SRC}/results.json"))
how = f"bin/verify_r3.py (SEED_SRC={SRC}): scratch worktree under /tmp = /repo HEAD + patch (removed afterwards); suite and demo run there; checks run with VERIF_REPO pointing at it"
for arg in sys.argv[2:]:
    pid, slug = arg.split("=")
    meta = json.load(open(f"{SRC}/{pid}/meta.json"))
    for name, d in (("break", f"{pid}-{rnd}-{slug}"), ("benign_1", f"{pid}-{rnd}-benign-1")):
        if not os.path.exists(f"{SRC}/{pid}/{name}.diff") or f"{pid}/{name}" not in res:
            continue
        r = res[f"{pid}/{name}"]
        out = os.path.join(ROOT, d)
        os.makedirs(out, exist_ok=True)
        shutil.copy(f"{SRC}/{pid}/{name}.diff", f"{out}/patch.diff")
        checks = " ".join(f"{c}:violations={v['violations']} exit={v['exit']}" for c, v in r.get("checks", {}).items())
        ver = {"repo_head": head, "patch_applies": r["applies"], "suite_with_patch": r.get("suite", ""), "quick_checks_with_patch": checks, "how": how}
        if name == "break":
            shutil.copy(f"{SRC}/{pid}/demo.py", f"{out}/demo.py")
            ver["demo_exit_with_patch"] = str(r.get("demo_with"))
            ver["demo_exit_without_patch"] = str(r.get("demo_without"))
            m = {"property": pid, "kind": "break", "breaks": pid, "summary": meta.get("summary", ""), "needs": meta.get("needs", ""),
                 "tests_run": meta.get("tests_run", ""), "round": rnd}
        else:
            b = meta.get("benign") or [""]
            m = {"property": pid, "kind": "benign", "summary": b[0] if isinstance(b, list) else str(b),
                 "expect": "every check exits 0 (behaviour-preserving refactoring)", "round": rnd}
        json.dump(m, open(f"{out}/meta.json", "w"), indent=1)
        json.dump(ver, open(f"{out}/verified.json", "w"), indent=1)
        print(d, checks)
