#!/bin/bash
# development helper: run quick check(s) against a scratch tree = /repo HEAD + /root/seed3/<PID>/<NAME>.diff   usage: bin/r3one.sh C01 benign_2 [checks...]
pid=$1; name=$2; shift 2; checks=${@:-$pid}
W=/tmp/r3one_${pid}_${name}; O=/tmp/r3one_out_${pid}_${name}
git -C /repo worktree remove --force $W 2>/dev/null; git -C /repo worktree add -q --detach $W HEAD
git -C $W apply ${SEED_SRC:-/root/seed3}/$pid/$name.diff || { echo "no apply"; exit 3; }
cd "$(dirname "$0")/.."
for c in $checks; do VERIF_REPO=$W VERIF_OUT=$O bin/vcheck $c --tier quick 2>&1 | grep -v "^E1002\|^W1002\|^KNOWN-FINDING\|UserWarning\|^  std=\|^  ref\|^  refb" > /tmp/r3one_${pid}_${name}_$c.log; grep -c "^VIOLATION" /tmp/r3one_${pid}_${name}_$c.log; grep "\[quick\]" /tmp/r3one_${pid}_${name}_$c.log; done
git -C /repo worktree remove --force $W; rm -rf $O
