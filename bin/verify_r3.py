#!/venv/bin/python
"""Round-3 seed verification (development tool, not a registered check).

For every /root/seed3/<PID>/{benign_1,benign_2,benign_3,break}.diff:
  stage 1 (parallel, scratch worktrees under /tmp, removed afterwards): the patch applies to /repo HEAD, the 113-test suite passes
          with it, and for break.diff the demo exits 1 with / 0 without the patch;
  stage 2 (sequential): the registered quick check(s) of the property run against the patched scratch tree
          (VERIF_REPO=<worktree> VERIF_OUT=<scratch>), exit code and summary line recorded.
Expected: benign -> exit 0, break -> exit 1 with a VIOLATION line.   Results -> /root/seed3/results.json

usage: bin/verify_r3.py [PID ...] [--stage2-only]
"""
import concurrent.futures as cf
import json
import os
import re
import shutil
import subprocess
import sys

SRC = os.environ.get("SEED_SRC", "/root/seed3")  # round 4: SEED_SRC=/root/seed4
ENV = dict(os.environ, OMP_NUM_THREADS="2", MKL_NUM_THREADS="2")


def sh(cmd, cwd=None, timeout=3000, env=None):
    p = subprocess.run(cmd, shell=True, cwd=cwd, capture_output=True, text=True, timeout=timeout, env=env or ENV)
    return p.returncode, (p.stdout + p.stderr)


def wt(pid, name):
    return f"/tmp/v{os.path.basename(SRC)[-1]}_{pid}_{name}"


def stage1(job):
    pid, name = job
    patch = f"{SRC}/{pid}/{name}.diff"
    w = wt(pid, name)
    sh(f"git -C /repo worktree remove --force {w}")
    shutil.rmtree(w, ignore_errors=True)
    rc, out = sh(f"git -C /repo worktree add -q --detach {w} HEAD")
    res = {"pid": pid, "name": name, "applies": False}
    rc, out = sh(f"git -C {w} apply {patch}")
    if rc != 0:
        res["apply_error"] = out[-300:]
        return res
    res["applies"] = True
    rc, out = sh('/venv/bin/python -m pytest -q -p no:cacheprovider -x unit_scaling/tests -k "not test_analysis" 2>&1 | tail -1', cwd=w)
    res["suite"] = out.strip()[-120:]
    if name == "break":
        shutil.copy(f"{SRC}/{pid}/demo.py", f"{w}/_demo.py")
        rc, out = sh(f"PYTHONPATH={w} /venv/bin/python _demo.py", cwd=w, timeout=900)
        res["demo_with"] = rc
        res["demo_out"] = out[-400:]
        sh(f"git -C {w} apply -R {patch}")
        rc, out = sh(f"PYTHONPATH={w} /venv/bin/python _demo.py", cwd=w, timeout=900)
        res["demo_without"] = rc
        sh(f"git -C {w} apply {patch}")
        os.remove(f"{w}/_demo.py")
    return res


def stage2(res, checks):
    pid, name = res["pid"], res["name"]
    w = wt(pid, name)
    out_dir = f"/tmp/v{os.path.basename(SRC)[-1]}out_{pid}_{name}"
    res["checks"] = {}
    for c in checks:
        env = dict(os.environ, VERIF_REPO=w, VERIF_OUT=out_dir)
        rc, out = sh(f"bin/vcheck {c} --tier quick", cwd="/verif", env=env, timeout=3000)
        lines = [l for l in out.splitlines() if not l.startswith(("E1002", "W1002"))]
        viol = [l for l in lines if l.startswith("VIOLATION")]
        inc = [l for l in lines if "INCONCLUSIVE" in l or "inconclusive:" in l][:6]
        res["checks"][c] = {"exit": rc, "summary": lines[-1] if lines else "", "violations": len(viol), "inconclusive_lines": inc,
                            "first_violation_detail": next((l for l in lines if l.startswith(("  ", "VIOL"))), "")[:300]}
        # keep the evidence of a non-zero run for inspection
        if rc != 0:
            keep = f"{SRC}/{pid}/{name}_{c}_out"
            shutil.rmtree(keep, ignore_errors=True)
            if os.path.isdir(out_dir):
                shutil.copytree(out_dir, keep)
            open(f"{keep}.log", "w").write(out)
    shutil.rmtree(out_dir, ignore_errors=True)
    return res


def main():
    args = [a for a in sys.argv[1:] if not a.startswith("--")]
    pids = args or sorted(d for d in os.listdir(SRC) if os.path.isdir(f"{SRC}/{d}") and os.path.exists(f"{SRC}/{d}/meta.json"))
    jobs = [(p, n) for p in pids for n in ("benign_1", "benign_2", "benign_3", "break") if os.path.exists(f"{SRC}/{p}/{n}.diff")]
    with cf.ThreadPoolExecutor(6) as ex:
        results = list(ex.map(stage1, jobs))
    allres = {}
    if os.path.exists(f"{SRC}/results.json"):
        allres = json.load(open(f"{SRC}/results.json"))
    for r in results:
        if r["applies"]:
            extra = []
            f = f"{SRC}/{r['pid']}/checks"
            checks = open(f).read().split() if os.path.exists(f) else [r["pid"]]
            stage2(r, checks)
        sh(f"git -C /repo worktree remove --force {wt(r['pid'], r['name'])}")
        allres[f"{r['pid']}/{r['name']}"] = r
        c = r.get("checks", {})
        print(r["pid"], r["name"], "applies" if r["applies"] else "NO-APPLY", "| suite:", r.get("suite", "")[-40:],
              "| demo:", r.get("demo_with"), r.get("demo_without"), "|", {k: (v["exit"], v["violations"]) for k, v in c.items()}, flush=True)
        json.dump(allres, open(f"{SRC}/results.json", "w"), indent=1)


if __name__ == "__main__":
    main()
