#!/bin/bash
# run every registered quick (or $1=thorough) check on the current /repo tree; print one line each
tier=${1:-quick}
cd "$(dirname "$0")/.."
[ -x .venv/bin/python ] || bash bin/setup.sh >/dev/null 2>&1
git -C /repo diff --quiet || { echo "/repo has uncommitted changes"; exit 9; }
for c in $(.venv/bin/python -c "import json;print(' '.join(c['property_id'] for c in json.load(open('MANIFEST.json'))['checks']))"); do
  s=$(date +%s); out=$(bin/vcheck $c --tier $tier 2>&1 | grep -v "^E1002\|^W1002" | tail -1); echo "$(( $(date +%s) - s ))s $out"
done
