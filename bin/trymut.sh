#!/bin/bash
# usage: bin/trymut.sh '<sed-expr>' <file-under-/repo> <check> [extra vcheck args]   -- apply, run quick check, revert
set -u
expr="$1"; file="$2"; chk="$3"; shift 3
cd /repo && git diff --quiet || { echo "/repo dirty"; exit 9; }
sed -i "$expr" "/repo/$file"
if git diff --quiet; then echo "MUTANT DID NOT APPLY"; exit 8; fi
git diff | grep '^[+-]' | grep -v '^+++\|^---'
cd /verif && bin/vcheck "$chk" --tier quick "$@" 2>&1 | tail -4
echo "exit=${PIPESTATUS[0]}"
git -C /repo checkout -- .
