#!/bin/bash
# usage: bin/trymut.sh '<sed-expr>' <file-under-/repo> "<checks>" [extra vcheck args]   -- apply, run quick checks, revert
set -u
expr="$1"; file="$2"; chks="$3"; shift 3
cd /repo && git diff --quiet || { echo "/repo dirty"; exit 9; }
sed -i "$expr" "/repo/$file"
if git diff --quiet; then echo "MUTANT DID NOT APPLY: $expr"; exit 8; fi
git diff | grep '^[+-]' | grep -v '^+++\|^---'
cd /verif
for chk in $chks; do VERIF_OUT=/var/tmp/verif_seed_out bin/vcheck "$chk" --tier quick "$@" 2>&1 | grep -v "^INCONCLUSIVE\|^KNOWN" | cut -c1-330 | tail -3; done
git -C /repo checkout -- .
