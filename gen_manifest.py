#!/usr/bin/env python3
"""Regenerates MANIFEST.json from the table below (kept in one place so it stays valid)."""
import json

CHECKS = {
 "C13": dict(engine="fpbits", category="model_checking", design_ref="DESIGN.md §3, §4 C13",
   text="The real FPFormat.quantise is executed on a symbolic element (z3 FP/BV semantics for every torch op it calls, torch meta tensors for shape/dtype/errors) and compared with an exact fixed-point oracle of the format's value set: z3 decides representability, neighbour, nearest-within-tolerance, saturation, idempotence, monotonicity, oddness and fixed points for EVERY float32 bit pattern per format (quick: 12 formats incl. both FP8; thorough: all 168), plus dtype/rank/emptiness and range properties. Bounded by the format list and per-query timeout only.",
   note="Trusted: z3's FP/BV theories as IEEE-754 semantics; the op handlers in vf/fpbits/btensor.py; torch meta tensors. One representative element (pipeline verified element-wise). NaN inputs and non-contiguous strides outside. Counterexamples are replayed on the real code before being reported.",
   technique="symbolic execution of the real quantise into z3 FP/bit-vector terms; SMT over all 2^32 inputs against a fixed-point oracle"),
 "C14": dict(engine="fpbits", category="model_checking", design_ref="DESIGN.md §3, §4 C14",
   text="Same encoding with torch.randint replaced by a symbolic draw: for all inputs x and all draws r, z3 decides neighbour, representable-fixed, monotone-in-r and the two threshold obligations that pin the count of rounding-up draws to within 1/2 (exactly when all discarded bits are used). quick: 8 formats x srbits {all,1,4,12}; thorough: E2..7 x M0..10 x srbits {all,1..12}.",
   note="Trusted: as C13; torch.randint modelled as a uniform independent draw per element (called once with x.shape, checked structurally).",
   technique="symbolic execution into z3 FP/BV with the random draw as a bit-vector variable; SMT over all inputs x all draws"),
}

NA = {
 "C20": "TorchDynamo/AOT-autograd/Inductor cannot be executed symbolically or translated to SMT; the property is about float agreement of two compiled pipelines (DESIGN.md §4 C20).",
}
for pid in ["C01","C02","C03","C04","C05","C06","C07","C08","C09","C10","C11","C12","C15","C16","C17","C18","C19"]:
    if pid not in CHECKS:
        NA[pid] = "check not built yet (planned: see DESIGN.md §4); not claimed until its machinery exists"

def main():
    checks = []
    for pid in sorted(CHECKS):
        c = CHECKS[pid]
        checks.append({
            "property_id": pid,
            "quick_cmd": f"bin/vcheck {pid} --tier quick",
            "thorough_cmd": f"bin/vcheck {pid} --tier thorough",
            "evidence_file": f"/verif/evidence/{pid}.json",
            "replay_cmd_template": f"bin/vcheck {pid} --replay {{path}}",
            "engine": c["engine"],
            "level_claimed": {"category": c["category"], "text": c["text"], "design_ref": c["design_ref"]},
            "level_note": c["note"],
            "technique": c["technique"],
        })
    m = {
        "version": 1,
        "setup_cmd": "bash bin/setup.sh",
        "hooks": {
            "guard": "UNIT_SCALING_VERIF",
            "enable": "no source hooks: all interception (__torch_function__, patched autograd.Function.apply, module-global shims) happens in the check process; bin/vcheck exports UNIT_SCALING_VERIF=1 for uniformity",
            "baseline_off_cmd": "cd /repo && /venv/bin/python -m pytest -ra -q -p no:cacheprovider --timeout=900 --continue-on-collection-errors",
            "source_commits": [],
            "add_only": True,
        },
        "engines": [
            {"name": "fpbits", "path": "vf/fpbits", "serves_properties": ["C13", "C14", "C15"],
             "kind_free_text": "real FPFormat.quantise executed on a symbolic element; z3 FP/BV; fixed-point oracle"},
            {"name": "symtorch", "path": "vf/sym", "serves_properties": ["C01","C02","C03","C04","C05","C06","C07","C08","C09","C10","C11","C12"],
             "kind_free_text": "symbolic execution of the library's Python through __torch_function__ with symbolic shapes/hyperparameters; z3 NRA"},
            {"name": "fxsym", "path": "vf/fxsym", "serves_properties": ["C15","C16","C17","C18","C19"],
             "kind_free_text": "real FX graph passes run on enumerated graphs; results interpreted symbolically (translation validation)"},
        ],
        "checks": checks,
        "not_applicable": [{"property_id": k, "reason": v} for k, v in sorted(NA.items())],
        "notes": "Solver-based checking of the real code. Exit 0 = all obligations discharged; 1 = replayed counterexample (VIOLATION line); 2 = inconclusive/harness error (never counted as pass). known_findings.json lists genuine defects (open/fixed).",
    }
    json.dump(m, open("MANIFEST.json", "w"), indent=1)

if __name__ == "__main__":
    main()
