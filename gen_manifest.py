#!/usr/bin/env python3
"""Regenerates MANIFEST.json from the table below (kept in one place so it stays valid)."""
import json

CHECKS = {
 "C13": dict(engine="fpbits", category="model_checking", design_ref="DESIGN.md §3, §4 C13",
   text="The real FPFormat.quantise is executed on a symbolic element (z3 FP/BV semantics for every torch op it calls, torch meta tensors for shape/dtype/errors) and compared with an exact fixed-point oracle of the format's value set: z3 decides representability, neighbour, nearest-within-tolerance, saturation, idempotence, monotonicity, oddness and fixed points for EVERY float32 bit pattern per format (quick: 12 formats incl. both FP8; thorough: all 168), plus dtype/rank/emptiness and range properties. Bounded by the format list and per-query timeout only.",
   note="Trusted: z3's FP/BV theories as IEEE-754 semantics; the op handlers in vf/fpbits/btensor.py; torch meta tensors. One representative element (pipeline verified element-wise). NaN inputs and non-contiguous strides outside. Counterexamples are replayed on the real code before being reported.",
   technique="symbolic execution of the real quantise into z3 FP/bit-vector terms; SMT over all 2^32 inputs against a fixed-point oracle"),
 "C14": dict(engine="fpbits", category="model_checking", design_ref="DESIGN.md §3, §4 C14",
   text="Same encoding with torch.randint replaced by a symbolic draw: for all inputs x and all draws r, z3 decides neighbour, representable-fixed, monotone-in-r and the two threshold obligations that pin the count of rounding-up draws to within 1/2 (exactly when all discarded bits are used). quick: 8 formats x srbits {all,1,4,12}; thorough: E2..7 x M0..10 x srbits {all,1..12}.",
   note="Trusted: as C13; torch.randint modelled as a uniform independent draw per element (called once with x.shape, checked structurally).",
   technique="symbolic execution into z3 FP/BV with the random draw as a bit-vector variable; SMT over all inputs x all draws"),
}

S_NOTE = ("Trusted: z3 NRA (nlsat + default portfolio, dims relaxed to reals for unsat, integer model required for sat); the torch-op stubs of vf/sym/tensor.py "
          "(opaque terms + shape rules validated against torch meta tensors at every call); the mini-autograd; Python floats modelled as reals (1e-9 relative where the "
          "source carries already-rounded constants). Every sat answer is replayed on the real code with real float64 tensors before it is reported.")
CHECKS.update({
 "C01": dict(engine="symtorch", category="model_checking", design_ref="DESIGN.md §2, §4 C01",
   text="All 16 public functions of unit_scaling.functional are executed unmodified on symbolic tensors (symbolic dims up to 2^20, symbolic hyperparameters, universally quantified data) next to their PyTorch reference; z3 decides per path that the result is c x reference with c > 0 (c = 1 for losses/norms/embedding), equal shapes, definedness of every log/sqrt/division, no input modified; unsupported PyTorch arguments must raise on every path. Discrete selectors (op, rank, optional tensors, constraint, flags, dtype) enumerated exhaustively per tier.",
   note=S_NOTE, technique="symbolic execution of the real Python through __torch_function__ with symbolic shapes; z3 nonlinear real arithmetic; counterexample replay"),
 "C02": dict(engine="symtorch", category="model_checking", design_ref="DESIGN.md §2.3, §4 C02",
   text="Same harnesses followed by a backward pass through the mini-autograd (the real _ScaledGrad.forward/backward bodies run; torch ops contribute opaque vjp terms linear in a free upstream gradient): every input gradient is a_i x the reference gradient with a_i > 0, data- and upstream-independent; scale_fwd/scale_bwd with a symbolic factor in [-1000,1000].",
   note=S_NOTE, technique="symbolic execution + symbolic reverse-mode tape; z3 NRA; replay"),
 "C03": dict(engine="symtorch", category="model_checking", design_ref="DESIGN.md §4 C03",
   text="With constraint None, factor^2 x (#independent unit-variance terms) = 1 is decided by z3 for every output/gradient tensor of linear, matmul, conv1d, add, embedding, dropout, mse_loss and the norm gains/biases, for all shapes; the term-count contracts are validated on every run against the PyTorch reference run on all-ones tensors.",
   note=S_NOTE + " Term counts are stub contracts (validated per run at sample dims, solver covers all dims).", technique="symbolic execution; z3 NRA over symbolic shapes; all-ones contract validation; replay"),
 "C05": dict(engine="symtorch", category="model_checking", design_ref="DESIGN.md §4 C05",
   text="apply_constraint and the seven rule functions on 1-6 symbolic scales (equal outputs, = independent rule formula, symmetry, min<=mean<=max, hmean<=gmean<=amean); for every op with a constraint argument and every valid name, forward factor = constrained gradient factors = rule(unconstrained factors) for all shapes, weight/bias factors unaffected, None keeps each ideal value; unknown names raise ValueError (one symbolic path + reflection over the module namespace, labelled enumeration).",
   note=S_NOTE, technique="symbolic execution; z3 NRA (roots as fresh positives); replay"),
 "C06": dict(engine="symtorch", category="model_checking", design_ref="DESIGN.md §4 C06",
   text="Real residual_split/residual_add/residual_apply with symbolic tau per layer, opaque x of any shape and an uninterpreted differentiable branch function: output and gradient at x equal the closed form (x + tau f(x))/sqrt(1+tau^2) and its derivative, the branch sees the unattenuated upstream gradient, weights' squares sum to 1; sequential and nested stacks (quick depth <= 3, thorough <= 4 sequential / 3 nested: deeper stacks exceed z3's reach).",
   note=S_NOTE + " Branch function is an uninterpreted symbol: holds for every differentiable branch.", technique="symbolic execution with an uninterpreted branch function; z3 NRA; replay"),
 "C07": dict(engine="symtorch", category="model_checking", design_ref="DESIGN.md §4 C07",
   text="The real transformer_residual_scaling_rule executed with symbolic residual_mult, residual_attn_ratio in [1/16,16], symbolic depth L <= 2^20 and branch index (both parities): z3 proves tau_k^2 = alpha_k^2/D_k and the inductive step of the contribution invariant, plus base case and the five final claims => all depths at once; unrolled cross-check for small depths with a call history on the shared rule object; TransformerStack wiring structurally.",
   note=S_NOTE + " Inductive argument: invariant written from the docstring; unrolled depths only 1..2 (quick)/1..3 (thorough) because z3 times out beyond.", technique="symbolic execution of the scalar rule; inductive invariant discharged by z3 nlsat; replay"),
 "C10": dict(engine="symtorch", category="model_checking", design_ref="DESIGN.md §4 C10",
   text="The real scaled_parameters, lr_scale_func_adam/sgd, lr_scale_for_depth, _get_fan_in and the SGD/Adam/AdamW constructors (torch base __init__ recorded) run on parameters with symbolic shape (rank 1-3, dims <= 4096), every tag, depth None or symbolic <= 1024, symbolic lr as float or 0-dim tensor, in every grouping structure: each group's lr equals source lr x the factor written in the property (independent z3 formula); untagged/invalid/4-d-weight/missing-lr error clauses per path; CrossHair as a second engine on _get_fan_in.",
   note=S_NOTE + " Symbolic depth is an int subclass with symbolic arithmetic.", technique="symbolic execution of the optimizer wrappers; z3 NRA; CrossHair second opinion; replay on real parameters"),
 "C11": dict(engine="symtorch", category="model_checking", design_ref="DESIGN.md §4 C11",
   text="Same harness: every input parameter exactly once, in order, one per group; extra keys carried over by identity; caller's groups and lr tensors untouched (version counters), no lr tensor aliased; lr_out x wd_out = requested decay for all symbolic lr/wd/shapes (independent decay) or wd passed through; the zero-gradient step factor (1 - wd) follows from the documented SGD/AdamW update, validated on every run against real 1-3 steps.",
   note=S_NOTE + " Group structures enumerated (<= 2 groups, <= 3 params); optimizer step is a stub contract validated concretely.", technique="symbolic execution; z3 NRA; object-identity/version tracking on symbolic tensors; replay"),
 "C12": dict(engine="symtorch", category="model_checking", design_ref="DESIGN.md §4 C12",
   text="Composition decided symbolically for all widths: forward factor c_out from the real U.linear/linear_readout/conv1d x lr factor from the real library Adam/AdamW on a weight of symbolic shape (tag/depth/constraint read off the real module) x fan_in*k = eta/sqrt(depth), with the weight-gradient factor proved positive; the Adam first-step contract and the module=function composition are validated concretely each run on real modules.",
   note=S_NOTE + " Adam's update rule is torch code: used as documented contract (eps=0: -lr sign(grad)), validated per run.", technique="symbolic execution; z3 NRA over fan-in/fan-out/kernel/depth/eta; concrete contract validation; replay"),
 "C08": dict(engine="symtorch", category="model_checking", design_ref="DESIGN.md §4 C08",
   text="The real forward() of 14 module classes runs on a proxy self (parameters -> opaque symbolic tensors of symbolic shape keeping their tags; numeric options -> symbolic values; the rest falls through to the really constructed module) and is unified - value, shape and every parameter/input gradient - with an independently written functional form using the configured options, per discrete option combination (constructor run concretely, sentinel options must be stored verbatim). MLP/MHSA unfolded through their real forwards; TransformerLayer with uninterpreted sub-blocks. Depth containers on parameters with a symbolic tag selector. Initial state (recorded N(0,1) initialiser, zero biases, unit gains), tags, depth and rejected options concretely (labelled).",
   note=S_NOTE + " Constructors and the initial-state/tag clauses are decided on concrete objects (finite, exhaustive over discrete options); RNG statistics reduced to 'the initialiser is N(0,1)'.", technique="symbolic execution of module forward on a proxy self; z3 NRA; concrete constructor enumeration; replay against functional form and torch.nn twin"),
 "C09": dict(engine="symtorch", category="model_checking", design_ref="DESIGN.md §4 C09",
   text="One inductive step per operation of the property's alphabet (deepcopy/pickle/torch.save of parameter or module, .to, .half, load_state_dict, requires_grad_, library transform) from an arbitrary valid state: the real hook functions and the real copy/pickle protocol run on a parameter whose tag is a solver-selected symbol (path forking in has_parameter_data / lr_scale_func) and whose depth is symbolic; obligations: invariant (nn.Parameter with hooks bound to itself) re-established, tag/depth/values/dtype/trainability as expected, same lr scale (z3), accepted by the optimizers. All real histories up to length 3 (quick) / 4 (thorough) enumerated as a cross-check of the invariant's strength.",
   note="Trusted: CPython copy/pickle and torch serialisation protocols (executed for real, validated with sentinel hooks each run). The solver's share is small (tag selector feasibility, lr-scale equalities); the argument is inductive: if the invariant is re-established by every operation, histories of any length preserve the tags. History enumeration is labelled enumeration.", technique="inductive step of the real hook code under symbolic tag/depth with path forking (z3) + bounded enumeration of real histories"),
 "C15": dict(engine="fxsym", category="translation_validation", design_ref="DESIGN.md §4 C15",
   text="(a) the real quantise_fwd/quantise_bwd autograd.Functions run on symbolic tensors with FPFormat.quantise an opaque op labelled with the complete format (E, M, rounding, srbits): value/gradient are Q(x)/g resp. x/Q(g); the lossless E8M23 clause is a z3 bit-vector proof over every float32. (b,c) per program of an enumerated family (linear with/without/keyword bias, unit-scaled linear, attention plain/causal/dropout_p=0/mask by keyword or position, unit-scaled attention, fillers, residual blocks, heads) and format pair: the REAL simulate_format/simulate_fp8 (also composed after unit_scale) runs through TorchDynamo on real inputs; the graph the quantisation backend received and the graph it produced are taken from that run and unified - output and all gradients, all data, all dims - against a hand-written reference bwdQ(op(fwdQ(tensor operands), bias/mask/kwargs untouched)) using the caller's formats.",
   note="Trusted: TorchDynamo's capture of the original program; engine S (opaque terms, mini-autograd incl. the autograd_function_apply higher-order op); stochastic rounding compared under 'same generator state' (Q is a labelled opaque op). Program axis enumerated (depth <= 3 quick). Graphs in which Dynamo inlines unit-scaled functions carry shape-specialised constants: dims stay concrete there.", technique="translation validation: real Dynamo-captured graphs before/after the library backend, interpreted symbolically and unified (z3 for coefficient equalities); z3 bit-vectors for the lossless clause; bit-exact replay with pinned RNG"),
 "C16": dict(engine="fxsym", category="translation_validation", design_ref="DESIGN.md §4 C16",
   text="Per program of a grammar enumerated exhaustively up to the tier bound (1251 programs quick: mapped ops incl. torch.nn wrappers and conv1d, unmapped ops, every kind of add, residual blocks in both operand orders with 9 branch shapes incl. softmax/attention, skip = input / residual output / plain sum, heads, embedding, user replacements): the REAL unit_scale() runs through TorchDynamo on real inputs (must not raise); the captured original graph under an independent recipe interpreter and the graph the library produced are both executed on symbolic tensors (real U.* code) and unified on output and every input/parameter gradient for all data and dims.",
   note="Trusted: TorchDynamo's capture; the recipe interpreter vf/fxsym/interp.py (written from the User Guide statement, independent of the backend); engine S. Program axis enumerated, not solved. Weight re-initialisation checked concretely.", technique="translation validation of real Dynamo-captured graphs against an independent reference interpreter; symbolic unification with z3; concrete replay"),
 "C18": dict(engine="fxsym", category="translation_validation", design_ref="DESIGN.md §4 C18",
   text="Per program (C16 vocabulary + fan-out, bool/int intermediates, views, in-place adds, multiple outputs, conv): the graph TorchDynamo captured under the real track_scales() is interpreted twice on symbolic tensors - plainly, and by the library's real ScaleTrackingInterpreter / ScaleTrackingAutogradFunction - and unified: outputs and all gradients identical for all data; every recorded metric is the statistic term of the tensor (forward) and of the total accumulated gradient (backward) that flowed through that node; instrumented iff float; no backward metrics without gradient; a second forward-only call with other data reports that call's statistics. Plus the real track_scales run through Dynamo on real inputs (bit-identical outputs/gradients, recorded numbers = recomputed statistics) and analyse_module's tracer/interpreter symbolically.",
   note="Trusted: TorchDynamo capture; engine S (statistics are opaque terms over universally quantified data; gradient accumulation per torch.autograd's contract). Numeric evaluation of mean/std/max is torch's.", technique="translation validation: instrumented vs plain symbolic interpretation of real Dynamo-captured graphs, unification with z3; concrete bit-exact replay"),
 "C17": dict(engine="fxsym", category="translation_validation", design_ref="DESIGN.md §4 C17",
   text="Partial. (i) the real _order_backends on lists whose backend kinds are solver-selected symbols (path forking in the real code, lengths 1-4 quick / 1-5 thorough): unit scaling precedes quantisation, multiset and relative order of the others preserved; _compose_backends applies each backend once in list order. (ii) both orders of {unit_scale, simulate_format} on a family of modules through the REAL TorchDynamo path - also after calling the intermediate module - : each library backend applied exactly once, unit scaling first, and the two orders' final graphs unified symbolically on output and all gradients for all data/dims. (iii) concrete side conditions on real objects (labelled): original bit-identical, no shared storage, backends list untouched, repeated calls equal.",
   note="Trusted: TorchDynamo capture; engine S. Outside: Dynamo's caching behaviour beyond 'two calls agree', and compile() (Inductor).", technique="symbolic path forking over backend kinds (z3) + translation validation of the two nesting orders on real Dynamo graphs; concrete side conditions"),
 "C19": dict(engine="fxsym", category="translation_validation", design_ref="DESIGN.md §4 C19",
   text="Tracked graphs from the real track_scales (views/negations, rotate-half and stack list arguments, keyword tensor arguments, integer/bool intermediates, two-float-input bool nodes, multi-output, residual, embedding+loss; forward-only and forward+backward). Same-scale pruning: every node's forward/backward mean-|x| and rtol are solver symbols; the real prune_same_scale_tensors runs with path forking over all comparison outcomes (math.isclose = its documented formula) and per path z3 checks path => (removed node same-scale as its resolved bypass target; kept eligible node not same-scale), plus structural checks: lint, original order, input graph unchanged, every removed producer bypassed at every occurrence (positional, keyword, nested). Selective pruning with a solver-selected target subset (removed iff selected, edges cut). Non-float pruning structurally per graph; the three given rtol values on the real recorded metrics.",
   note="Trusted: real track_scales/Dynamo for the graph skeletons (enumerated family of 9 modules x 2 modes); z3 for path feasibility and rule obligations; expected consumer arguments recomputed independently.", technique="symbolic execution of the pruning passes with symbolic metrics and tolerance (z3 path forking); structural translation validation of the result graph"),
 "C04": dict(engine="symtorch", category="model_checking", design_ref="DESIGN.md §4 C04",
   text="PARTIAL. Decided: (1) gelu (exact, tanh), silu, silu_glu for EVERY real mult in [1/16,16]: the real functions run with a symbolic mult; on each of 512 log-grid cells z3 proves 0.93 <= factor(m) x sigma(m) <= 1.07 for all m in the cell (output std and every input-gradient RMS), from monotonicity of exp, rational enclosures of the logs of the source's constants and a quadrature enclosure of sigma over the cell; (2) cross_entropy: logit-gradient RMS exactly 1 for uniform logits, for all vocabulary/batch sizes and mult. NOT checked (no closed form for an SMT solver): softmax, attention, non-uniform cross-entropy and norm bands.",
   note="Trusted: z3 (UF+NRA); the sigma(m) enclosure is numerical (120001-node Simpson rule at cell ends and midpoint, widened 0.2 %, validated against Monte-Carlo on the real torch functions each run), not formal. The softmax/attention/CE-band/norm clauses of the property are outside this check.", technique="symbolic execution with symbolic mult; per-cell SMT (uninterpreted exp/log with monotonicity instances, rational enclosures); quadrature oracle; replay by measurement"),
})

NA = {
 "C20": "TorchDynamo/AOT-autograd/Inductor cannot be executed symbolically or translated to SMT; the property is about float agreement of two compiled pipelines (DESIGN.md §4 C20).",
}
for pid in ["C01","C02","C03","C04","C05","C06","C07","C08","C09","C10","C11","C12","C15","C16","C17","C18","C19"]:
    if pid not in CHECKS:
        NA[pid] = "check not built yet (planned: see DESIGN.md §4); not claimed until its machinery exists"

def main():
    checks = []
    for pid in sorted(CHECKS):
        c = CHECKS[pid]
        checks.append({
            "property_id": pid,
            "quick_cmd": f"bin/vcheck {pid} --tier quick",
            "thorough_cmd": f"bin/vcheck {pid} --tier thorough",
            "evidence_file": f"/verif/evidence/{pid}.json",
            "replay_cmd_template": f"bin/vcheck {pid} --replay {{path}}",
            "engine": c["engine"],
            "level_claimed": {"category": c["category"], "text": c["text"], "design_ref": c["design_ref"]},
            "level_note": c["note"],
            "technique": c["technique"],
        })
    m = {
        "version": 1,
        "setup_cmd": "bash bin/setup.sh",
        "hooks": {
            "guard": "UNIT_SCALING_VERIF",
            "enable": "no source hooks: all interception (__torch_function__, patched autograd.Function.apply, module-global shims) happens in the check process; bin/vcheck exports UNIT_SCALING_VERIF=1 for uniformity",
            "baseline_off_cmd": "cd /repo && /venv/bin/python -m pytest -ra -q -p no:cacheprovider --timeout=900 --continue-on-collection-errors",
            "source_commits": [],
            "add_only": True,
        },
        "engines": [
            {"name": "fpbits", "path": "vf/fpbits", "serves_properties": ["C13", "C14", "C15"],
             "kind_free_text": "real FPFormat.quantise executed on a symbolic element; z3 FP/BV; fixed-point oracle"},
            {"name": "symtorch", "path": "vf/sym", "serves_properties": ["C01","C02","C03","C04","C05","C06","C07","C08","C09","C10","C11","C12"],
             "kind_free_text": "symbolic execution of the library's Python through __torch_function__ with symbolic shapes/hyperparameters; z3 NRA"},
            {"name": "fxsym", "path": "vf/fxsym", "serves_properties": ["C15","C16","C17","C18","C19"],
             "kind_free_text": "real FX graph passes run on enumerated graphs; results interpreted symbolically (translation validation)"},
        ],
        "checks": checks,
        "not_applicable": [{"property_id": k, "reason": v} for k, v in sorted(NA.items())],
        "notes": "Solver-based checking of the real code. Exit 0 = all obligations discharged; 1 = replayed counterexample (VIOLATION line); 2 = inconclusive/harness error (never counted as pass). known_findings.json lists genuine defects (open/fixed).",
    }
    json.dump(m, open("MANIFEST.json", "w"), indent=1)

if __name__ == "__main__":
    main()
